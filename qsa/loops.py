"""Loop facts: loop-carried dependences and loop invariance (E3)."""
from __future__ import annotations

import ast
from typing import Dict, List, Set, Tuple

from .astutil import unparse


def _stores(stmts) -> Set[str]:
    out: Set[str] = set()
    for st in stmts:
        for n in ast.walk(st):
            if isinstance(n, ast.Name) and isinstance(n.ctx, (ast.Store, ast.Del)):
                out.add(n.id)
    return out


def carried_reads(loop: ast.For) -> List[Tuple[str, ast.AST]]:
    """Names written in the loop body that some path reads before writing them in the same
    iteration (a value carried from an earlier iteration).  Reads and writes under `if C:` with
    the same loop-invariant condition C are correlated (the repo's `if is_computation_time_required:`
    idiom).  Comprehension-local names are ignored."""
    body = loop.body
    written = _stores(body)
    tgt = set()
    for n in ast.walk(loop.target):
        if isinstance(n, ast.Name):
            tgt.add(n.id)
    invariant_conds = set()
    for st in ast.walk(loop):
        if isinstance(st, ast.If):
            names = {n.id for n in ast.walk(st.test) if isinstance(n, ast.Name)}
            if names and not (names & written) and not (names & tgt):
                invariant_conds.add(unparse(st.test))
    out: List[Tuple[str, ast.AST]] = []

    def walk(stmts, assigned: Set[str], conds: Dict[str, Set[str]]) -> Set[str]:
        assigned = set(assigned)
        for st in stmts:
            if isinstance(st, ast.If):
                ctext = unparse(st.test)
                reads(st.test, assigned, conds)
                extra = conds.get(ctext, set()) if ctext in invariant_conds else set()
                a1 = walk(st.body, assigned | extra, conds)
                a2 = walk(st.orelse, assigned, conds)
                if ctext in invariant_conds:
                    conds.setdefault(ctext, set()).update(a1 - assigned)
                assigned = assigned | (a1 & a2)
            elif isinstance(st, (ast.For, ast.While)):
                if isinstance(st, ast.For):
                    reads(st.iter, assigned, conds)
                    inner = set(assigned) | {n.id for n in ast.walk(st.target) if isinstance(n, ast.Name)}
                else:
                    reads(st.test, assigned, conds)
                    inner = set(assigned)
                walk(st.body, inner, conds)
            elif isinstance(st, ast.Try):
                a = walk(st.body, assigned, conds)
                for h in st.handlers:
                    walk(h.body, assigned, conds)
                assigned = a if not st.handlers else assigned
            elif isinstance(st, ast.With):
                for it in st.items:
                    reads(it.context_expr, assigned, conds)
                assigned = walk(st.body, assigned, conds)
            else:
                if isinstance(st, ast.AugAssign):
                    reads(st.target, assigned, conds, force=True)
                    reads(st.value, assigned, conds)
                elif isinstance(st, ast.Assign):
                    reads(st.value, assigned, conds)
                    for t in st.targets:
                        if not isinstance(t, ast.Name):
                            reads(t, assigned, conds)
                else:
                    reads(st, assigned, conds)
                for n in ast.walk(st):
                    if isinstance(n, ast.Name) and isinstance(n.ctx, ast.Store):
                        assigned.add(n.id)
        return assigned

    def reads(node, assigned, conds, force=False):
        comp_locals: Set[str] = set()
        for n in ast.walk(node):
            if isinstance(n, ast.comprehension):
                for t in ast.walk(n.target):
                    if isinstance(t, ast.Name):
                        comp_locals.add(t.id)
        for n in ast.walk(node):
            if isinstance(n, ast.Name) and (isinstance(n.ctx, ast.Load) or force) and n.id in written and n.id not in tgt \
                    and n.id not in assigned and n.id not in comp_locals:
                out.append((n.id, n))

    walk(body, set(), {})
    return out


def stale_loop_variable_reads(ctx, prefixes):
    """Reads of a name that is bound ONLY as the target of `for` loops, made inside some other loop that does not bind it: the value
    is whatever the earlier loop left behind (its last item), the same for every iteration of the loop that reads it.
    Yields (func, name node, binding loop).  (A read after the loop that is not inside any loop - `if k == max_iteration` - is the
    ordinary idiom and is not reported.)"""
    import ast as _ast
    from .astutil import assignments
    from .index import own_nodes, parents
    for f in ctx.ix.funcs.values():
        if not f.module.name.startswith(tuple(prefixes)):
            continue
        binds = assignments(f.node)
        params = {p.arg for p in f.all_params}
        for x in own_nodes(f.node):
            if not (isinstance(x, _ast.Name) and isinstance(x.ctx, _ast.Load)):
                continue
            bs = binds.get(x.id, [])
            if not bs or x.id in params or not all(isinstance(b, _ast.For) for b in bs):
                continue
            anc = [p for p in parents(x) if isinstance(p, (_ast.For, _ast.While))]
            if any(isinstance(p, _ast.For) and x.id in {z.id for z in _ast.walk(p.target) if isinstance(z, _ast.Name)} for p in anc):
                continue
            if not anc:
                # after the loop, outside any loop: fine for a counter (`if k == max_iteration`), but an ITEM of the iterated
                # collection read there is just the last item - e.g. a per-item check that slipped out of its loop
                b = bs[0]
                it = b.iter
                is_range = isinstance(it, _ast.Call) and isinstance(it.func, _ast.Name) and it.func.id == "range"
                is_enum_counter = isinstance(it, _ast.Call) and isinstance(it.func, _ast.Name) and it.func.id == "enumerate" \
                    and isinstance(b.target, _ast.Tuple) and isinstance(b.target.elts[0], _ast.Name) and b.target.elts[0].id == x.id
                if is_range or is_enum_counter:
                    continue
            yield f, x, bs[0]


def count_loops(ctx, prefixes):
    import ast as _ast
    from .index import own_nodes
    return sum(1 for f in ctx.ix.funcs.values() if f.module.name.startswith(tuple(prefixes)) for n in own_nodes(f.node) if isinstance(n, _ast.For))


def per_iteration_results(ctx, prefixes):
    """Loops that compute a value per iteration and collect the values in a list created just before the loop.
    Yields (func, loop, list name, 'inside' | 'after-only'): 'after-only' means the only append of a loop-computed value to that list
    is placed AFTER the loop, so that just the last iteration's value is kept."""
    import ast as _ast
    from .index import own_nodes
    for f in ctx.ix.funcs.values():
        if not f.module.name.startswith(tuple(prefixes)):
            continue
        for lp in own_nodes(f.node):
            if not isinstance(lp, (_ast.For, _ast.While)):
                continue
            blk = getattr(lp, "_parent", None)
            body = None
            for fld in ("body", "orelse", "finalbody"):
                b = getattr(blk, fld, None)
                if isinstance(b, list) and any(lp is x for x in b):
                    body = b
            if body is None:
                continue
            i = next(k for k, x in enumerate(body) if x is lp)
            assigned = {t.id for s_ in _ast.walk(lp) if isinstance(s_, _ast.Assign) for t in s_.targets if isinstance(t, _ast.Name)}
            inits = {t.id for s_ in body[:i] if isinstance(s_, _ast.Assign) and isinstance(s_.value, _ast.List) and not s_.value.elts
                     for t in s_.targets if isinstance(t, _ast.Name)}

            def appends(nodes, L=None):
                out = []
                for n in nodes:
                    for c in _ast.walk(n):
                        if isinstance(c, _ast.Call) and isinstance(c.func, _ast.Attribute) and c.func.attr == "append" and isinstance(c.func.value, _ast.Name) \
                                and len(c.args) == 1 and isinstance(c.args[0], _ast.Name) and c.args[0].id in assigned and c.func.value.id in inits:
                            out.append(c.func.value.id)
                return out
            inside = set(appends([lp]))
            after = set(appends(body[i + 1:i + 3]))
            for L in sorted(inside):
                yield f, lp, L, "inside"
            for L in sorted(after - inside):
                any_inside = any(isinstance(c, _ast.Call) and isinstance(c.func, _ast.Attribute) and c.func.attr in ("append", "extend", "insert")
                                 and isinstance(c.func.value, _ast.Name) and c.func.value.id == L for c in _ast.walk(lp))
                if not any_inside:
                    yield f, lp, L, "after-only"
