"""Exact symbolic interpretation of the repo's straight-line integer index code.

Fragment: assignments (names, tuple unpacking), `+= -= *=`, if/else on boolean flags and on
(in)equalities of integer expressions, return; expressions built from names, integer literals,
+ - * **, tuples, `divmod`, conditional expressions, `c_sys.dim`, `len(x)`, `x.shape[i]`,
`x[0].shape[0]`.  Values are polynomials (qsa.poly) or tuples of them.  `divmod(P, N)` is
resolved exactly: monomials of P divisible by N form the quotient when the rest is provably in
[0, N); otherwise fresh quotient/remainder symbols are introduced together with the defining
equation P = q*N + r, 0 <= r < N.  Anything outside the fragment raises Undecided.
"""
from __future__ import annotations

import ast
import itertools
from fractions import Fraction
from typing import Dict, List, Optional, Tuple

from .astutil import body_wo_doc, unparse
from .index import Func, dotted
from .poly import Poly


class Undecided(Exception):
    pass


class Path:
    def __init__(self, env, assume, defs, ranges, fresh):
        self.env: Dict[str, object] = env
        self.assume: Dict[Poly, bool] = assume     # (lhs - rhs) == 0  ->  truth value
        self.defs: Dict[str, Poly] = defs          # symbol := polynomial in fresh symbols
        self.ranges: Dict[str, Poly] = ranges      # symbol < bound (and >= 0)
        self.fresh = fresh                         # itertools.count shared along a path
        self.ret = None
        self.divcache = {}

    def fork(self):
        env = {k: (list(v) if isinstance(v, list) else v) for k, v in self.env.items()}
        q = Path(env, dict(self.assume), dict(self.defs), dict(self.ranges), self.fresh)
        q.divcache = dict(self.divcache)
        return q


def opaque_symbol(e: ast.AST) -> Optional[str]:
    """Size-like expressions mapped to canonical symbols."""
    s = unparse(e)
    if s.endswith(".dim") or s == "dim":
        return "d"
    if isinstance(e, ast.Call) and dotted(e.func) == "len" and e.args:
        return "len(%s)" % unparse(e.args[0])
    if isinstance(e, ast.Subscript) and isinstance(e.value, ast.Attribute) and e.value.attr == "shape":
        return s
    return None


class SymInterp:
    def __init__(self, func: Func, flags: Dict[str, bool]):
        self.func = func
        self.flags = flags

    # ------------------------------------------------------------------ expressions
    def ev(self, e: ast.AST, p: Path):
        if isinstance(e, ast.IfExp):
            # inside a larger expression: only where the path already decides the test (a specialised flag, an assumed comparison)
            c = self.cond(e.test, p)
            if c is True:
                return self.ev(e.body, p)
            if c is False:
                return self.ev(e.orelse, p)
            raise Undecided("expression %s" % unparse(e)[:80])
        if isinstance(e, ast.Constant):
            if isinstance(e.value, bool):
                return e.value
            if isinstance(e.value, int):
                return Poly.const(e.value)
            raise Undecided("constant %r" % (e.value,))
        if isinstance(e, ast.Name):
            if e.id in p.env:
                return p.env[e.id]
            if e.id in self.flags:
                return self.flags[e.id]
            raise Undecided("unbound name %s" % e.id)
        if isinstance(e, ast.Tuple):
            return tuple(self.ev(x, p) for x in e.elts)
        if isinstance(e, ast.BinOp):
            l, r = self.ev(e.left, p), self.ev(e.right, p)
            if isinstance(e.op, ast.Add) and isinstance(l, (list, tuple)) and isinstance(r, (list, tuple)) and type(l) == type(r):
                return l + r
            if not isinstance(l, Poly) or not isinstance(r, Poly):
                raise Undecided("arithmetic on non-integers: %s" % unparse(e))
            if isinstance(e.op, ast.Add):
                return l + r
            if isinstance(e.op, ast.Sub):
                return l - r
            if isinstance(e.op, ast.Mult):
                return l * r
            if isinstance(e.op, ast.Pow):
                try:
                    return l ** r
                except ValueError as ex:
                    raise Undecided(str(ex))
            if isinstance(e.op, ast.FloorDiv):
                q, _ = self.divmod(l, r, p)
                return q
            if isinstance(e.op, ast.Mod):
                _, m = self.divmod(l, r, p)
                return m
            raise Undecided("operator %s" % type(e.op).__name__)
        if isinstance(e, ast.UnaryOp) and isinstance(e.op, ast.USub):
            v = self.ev(e.operand, p)
            if isinstance(v, Poly):
                return -v
        if isinstance(e, ast.Call) and dotted(e.func) == "divmod" and len(e.args) == 2:
            a, b = self.ev(e.args[0], p), self.ev(e.args[1], p)
            return self.divmod(a, b, p)
        if isinstance(e, ast.Call) and dotted(e.func) == "int" and len(e.args) == 1:
            return self.ev(e.args[0], p)
        if isinstance(e, ast.List):
            return [self.ev(x, p) for x in e.elts]
        if isinstance(e, ast.Call) and dotted(e.func) == "len" and e.args:
            try:
                v = self.ev(e.args[0], p)
            except Undecided:
                v = None
            if isinstance(v, (tuple, list)):
                return Poly.const(len(v))
        elif isinstance(e, ast.Call) and dotted(e.func) in ("reversed", "list", "tuple", "zip", "range", "enumerate") and e.args:
            args = [self.ev(a, p) for a in e.args]
            fnm = dotted(e.func)
            if not all(isinstance(a, (tuple, list)) for a in args) and fnm != "range":
                raise Undecided("%s of a non-sequence" % fnm)
            if fnm == "reversed":
                return tuple(reversed(args[0]))
            if fnm == "list":
                return list(args[0])
            if fnm == "tuple":
                return tuple(args[0])
            if fnm == "zip":
                return tuple(tuple(x) for x in zip(*args))
            if fnm == "enumerate":
                return tuple((Poly.const(i), x) for i, x in enumerate(args[0]))
            if fnm == "range":
                cs = [a.as_const() if isinstance(a, Poly) else None for a in args]
                if any(c is None or c.denominator != 1 for c in cs):
                    raise Undecided("symbolic range")
                return tuple(Poly.const(i) for i in range(*[int(c) for c in cs]))
        sym = opaque_symbol(e)
        if sym is not None:
            return Poly.sym(sym)
        if isinstance(e, ast.Subscript):
            v = self.ev(e.value, p)
            if isinstance(v, (tuple, list)) and isinstance(e.slice, ast.Constant) and isinstance(e.slice.value, int):
                return v[e.slice.value]
            if isinstance(v, (tuple, list)) and isinstance(e.slice, ast.UnaryOp) and isinstance(e.slice.op, ast.USub) \
                    and isinstance(e.slice.operand, ast.Constant) and isinstance(e.slice.operand.value, int):
                return v[-e.slice.operand.value]
            if isinstance(v, (tuple, list)) and isinstance(e.slice, ast.Slice):
                def c(x):
                    if x is None:
                        return None
                    if isinstance(x, ast.Constant) and isinstance(x.value, int):
                        return x.value
                    if isinstance(x, ast.UnaryOp) and isinstance(x.op, ast.USub) and isinstance(x.operand, ast.Constant):
                        return -x.operand.value
                    raise Undecided("slice bound %s" % unparse(x))
                return type(v)(v[slice(c(e.slice.lower), c(e.slice.upper), c(e.slice.step))])
        raise Undecided("expression %s" % unparse(e))

    def divmod(self, a: Poly, n: Poly, p: Path):
        if not isinstance(a, Poly) or not isinstance(n, Poly) or len(n.t) != 1:
            raise Undecided("divmod by a non-monomial")
        ck = (a, n)
        if ck in p.divcache:
            return p.divcache[ck]
        res = self._divmod(a, n, p)
        p.divcache[ck] = res
        return res

    def _divmod(self, a: Poly, n: Poly, p: Path):
        quo, rem = Poly(), Poly()
        for m, c in a.t.items():
            term = Poly({m: c})
            q = term.div_mono(n)
            ok = q is not None and all(e >= 0 and e.denominator == 1 for mm in q.t for _, e in mm) \
                and all(cc.denominator == 1 for cc in q.t.values())
            # a bare remainder-range symbol smaller than n must not be "divided"
            if ok:
                quo = quo + q
            else:
                rem = rem + term
        if self.in_range(rem, n, p):
            return (quo, rem)
        # fresh symbols
        k = next(p.fresh)
        qs, rs = "q%d" % k, "r%d" % k
        p.ranges[rs] = n
        if len(a.t) == 1 and len(a.symbols()) == 1 and a == Poly.sym(next(iter(a.symbols()))):
            s = next(iter(a.symbols()))
            p.defs[s] = Poly.sym(qs) * n + Poly.sym(rs)
            if s in p.ranges:
                ub = p.ranges[s].div_mono(n)
                if ub is not None and all(e >= 0 for mm in ub.t for _, e in mm):
                    p.ranges[qs] = ub
            return (Poly.sym(qs), Poly.sym(rs))
        raise Undecided("divmod(%r, %r): dividend is not a symbol and the remainder is not provably in range" % (a, n))

    def in_range(self, r: Poly, n: Poly, p: Path) -> bool:
        """0 <= r < n for all admissible symbol values."""
        if r.is_zero():
            return True
        if not r.nonneg_coeffs():
            return False
        env = {}
        for s in r.symbols():
            if s == "d" or s == "m" or s.startswith("len(") or ".shape" in s:
                continue  # size parameter (>= 1), stays symbolic
            if s not in p.ranges:
                return False
            env[s] = p.ranges[s] - 1
        mx = r.subst(env)
        slack = (n - 1) - mx
        return slack.nonneg_coeffs() or slack.is_zero()

    def cond(self, t: ast.AST, p: Path) -> Optional[bool]:
        """Truth value of a test on this path, or None if it has to be forked."""
        if isinstance(t, ast.Name):
            v = self.ev(t, p)
            if isinstance(v, bool):
                return v
            raise Undecided("truthiness of %s" % t.id)
        if isinstance(t, ast.Constant) and isinstance(t.value, bool):
            return t.value
        if isinstance(t, ast.UnaryOp) and isinstance(t.op, ast.Not):
            v = self.cond(t.operand, p)
            return None if v is None else (not v)
        if isinstance(t, ast.Compare) and len(t.ops) == 1:
            op = t.ops[0]
            l, r = self.ev(t.left, p), self.ev(t.comparators[0], p)
            if isinstance(l, bool) or isinstance(r, bool):
                if isinstance(op, (ast.Eq, ast.Is)):
                    return l == r
                if isinstance(op, (ast.NotEq, ast.IsNot)):
                    return l != r
            if isinstance(l, Poly) and isinstance(r, Poly) and l.as_const() is not None and r.as_const() is not None \
                    and isinstance(op, (ast.Eq, ast.NotEq, ast.Lt, ast.LtE, ast.Gt, ast.GtE)):
                a, b = l.as_const(), r.as_const()
                return {ast.Eq: a == b, ast.NotEq: a != b, ast.Lt: a < b, ast.LtE: a <= b, ast.Gt: a > b, ast.GtE: a >= b}[type(op)]
            if isinstance(l, Poly) and isinstance(r, Poly) and isinstance(op, (ast.Eq, ast.NotEq)):
                key = (l - r).subst(p.defs)
                neg = isinstance(op, ast.NotEq)
                if key.is_zero():
                    return not neg
                c = key.as_const()
                if c is not None:
                    return neg
                for k, v in p.assume.items():
                    if k == key or k == -key:
                        return v != neg
                return None
        raise Undecided("test %s" % unparse(t))

    def cond_key(self, t: ast.AST, p: Path):
        if isinstance(t, ast.UnaryOp) and isinstance(t.op, ast.Not):
            k, pos = self.cond_key(t.operand, p)
            return k, not pos
        l, r = self.ev(t.left, p), self.ev(t.comparators[0], p)
        return (l - r).subst(p.defs), isinstance(t.ops[0], ast.Eq)

    # ------------------------------------------------------------------ statements
    def run(self, args: Dict[str, object], ranges=None, assume=None, defs=None) -> List[Path]:
        p = Path(dict(args), dict(assume or {}), dict(defs or {}), dict(ranges or {}), itertools.count(1))
        done: List[Path] = []
        self.block(body_wo_doc(self.func.node), [p], done)
        return done

    def block(self, stmts, paths: List[Path], done: List[Path]) -> List[Path]:
        for st in stmts:
            nxt: List[Path] = []
            for p in paths:
                nxt.extend(self.stmt(st, p, done))
            paths = nxt
            if not paths:
                break
        return paths

    def assign(self, t, v, p: Path):
        if isinstance(t, ast.Name):
            p.env[t.id] = v
        elif isinstance(t, (ast.Tuple, ast.List)):
            if not isinstance(v, tuple) or len(v) != len(t.elts):
                raise Undecided("unpacking %s" % unparse(t))
            for a, b in zip(t.elts, v):
                self.assign(a, b, p)
        else:
            raise Undecided("assignment target %s" % unparse(t))

    def stmt(self, st, p: Path, done) -> List[Path]:
        if isinstance(st, ast.Assign):
            v = self.ev(st.value, p) if not isinstance(st.value, ast.IfExp) else None
            if isinstance(st.value, ast.IfExp):
                return self._ifexp(st, p, done)
            for t in st.targets:
                self.assign(t, v, p)
            return [p]
        if isinstance(st, ast.AnnAssign) and st.value is not None:
            self.assign(st.target, self.ev(st.value, p), p)
            return [p]
        if isinstance(st, ast.AugAssign) and isinstance(st.target, ast.Name):
            cur = self.ev(ast.Name(id=st.target.id, ctx=ast.Load()), p)
            v = self.ev(st.value, p)
            if not isinstance(cur, Poly) or not isinstance(v, Poly):
                raise Undecided("augmented assignment on non-integers")
            if isinstance(st.op, ast.Add):
                p.env[st.target.id] = cur + v
            elif isinstance(st.op, ast.Sub):
                p.env[st.target.id] = cur - v
            elif isinstance(st.op, ast.Mult):
                p.env[st.target.id] = cur * v
            else:
                raise Undecided("augmented operator")
            return [p]
        if isinstance(st, ast.Return):
            if isinstance(st.value, ast.IfExp):
                outs = []
                for q, val in self._ifexp_values(st.value, p):
                    q.ret = val
                    done.append(q)
                return []
            p.ret = self.ev(st.value, p) if st.value is not None else None
            done.append(p)
            return []
        if isinstance(st, ast.If):
            t = st.test
            # De Morgan / short-circuit desugaring: conjunctions and disjunctions become nested tests
            if isinstance(t, ast.UnaryOp) and isinstance(t.op, ast.Not) and isinstance(t.operand, ast.BoolOp):
                inner = t.operand
                flipped = ast.BoolOp(op=ast.Or() if isinstance(inner.op, ast.And) else ast.And(),
                                     values=[ast.UnaryOp(op=ast.Not(), operand=v) for v in inner.values])
                return self.stmt(ast.If(test=flipped, body=st.body, orelse=st.orelse), p, done)
            if isinstance(t, ast.BoolOp) and len(t.values) >= 2:
                first, rest = t.values[0], (t.values[1] if len(t.values) == 2 else ast.BoolOp(op=t.op, values=t.values[1:]))
                if isinstance(t.op, ast.And):
                    nested = ast.If(test=first, body=[ast.If(test=rest, body=st.body, orelse=st.orelse)], orelse=st.orelse)
                else:
                    nested = ast.If(test=first, body=st.body, orelse=[ast.If(test=rest, body=st.body, orelse=st.orelse)])
                return self.stmt(nested, p, done)
            if not st.body and not st.orelse:
                return [p]
            c = self.cond(st.test, p)
            if c is True:
                return self.block(st.body, [p], done)
            if c is False:
                return self.block(st.orelse, [p], done)
            key, pos = self.cond_key(st.test, p)
            pt, pf = p.fork(), p.fork()
            pt.assume[key] = pos
            pf.assume[key] = not pos
            return self.block(st.body, [pt], done) + self.block(st.orelse, [pf], done)
        if isinstance(st, ast.Expr) and isinstance(st.value, ast.Constant):
            return [p]
        if isinstance(st, ast.Expr) and isinstance(st.value, ast.Call) and isinstance(st.value.func, ast.Attribute) \
                and st.value.func.attr == "append" and isinstance(st.value.func.value, ast.Name) and len(st.value.args) == 1:
            lst = p.env.get(st.value.func.value.id)
            if not isinstance(lst, list):
                raise Undecided("append on a non-list")
            p.env[st.value.func.value.id] = lst + [self.ev(st.value.args[0], p)]
            return [p]
        if isinstance(st, ast.Expr) and isinstance(st.value, ast.Call) and isinstance(st.value.func, ast.Attribute) \
                and isinstance(st.value.func.value, ast.Name) and st.value.func.attr in ("insert", "reverse", "extend") and not st.value.keywords:
            nm, a = st.value.func.value.id, st.value.args
            lst = p.env.get(nm)
            if not isinstance(lst, list):
                raise Undecided("%s on a non-list" % st.value.func.attr)
            if st.value.func.attr == "reverse" and not a:
                p.env[nm] = list(reversed(lst))
                return [p]
            if st.value.func.attr == "extend" and len(a) == 1:
                more = self.ev(a[0], p)
                if not isinstance(more, (tuple, list)):
                    raise Undecided("extend by a non-sequence")
                p.env[nm] = lst + list(more)
                return [p]
            if st.value.func.attr == "insert" and len(a) == 2:
                at = self.ev(a[0], p)
                c = at.as_const() if isinstance(at, Poly) else None
                if c is None or c.denominator != 1:
                    raise Undecided("insert at a symbolic position")
                new = list(lst)
                new.insert(int(c), self.ev(a[1], p))
                p.env[nm] = new
                return [p]
        if isinstance(st, ast.For):
            it = self.ev(st.iter, p)
            if not isinstance(it, (tuple, list)):
                raise Undecided("loop over a symbolic sequence")
            paths = [p]
            for x in it:
                nxt = []
                for q in paths:
                    self.assign(st.target, x, q)
                    nxt.extend(self.block(st.body, [q], done))
                paths = nxt
            return paths
        if isinstance(st, ast.Raise):
            return []
        if isinstance(st, ast.Pass):
            return [p]
        raise Undecided("statement %s" % unparse(st)[:80])

    def _ifexp_values(self, e: ast.IfExp, p: Path):
        c = self.cond(e.test, p)
        if c is True:
            return [(p, self.ev(e.body, p))]
        if c is False:
            return [(p, self.ev(e.orelse, p))]
        key, pos = self.cond_key(e.test, p)
        pt, pf = p.fork(), p.fork()
        pt.assume[key] = pos
        pf.assume[key] = not pos
        return [(pt, self.ev(e.body, pt)), (pf, self.ev(e.orelse, pf))]

    def _ifexp(self, st: ast.Assign, p: Path, done):
        outs = []
        for q, val in self._ifexp_values(st.value, p):
            for t in st.targets:
                self.assign(t, val, q)
            outs.append(q)
        return outs
