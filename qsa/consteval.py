"""Constant propagation over the catalogue modules' constant fragment.

The catalogues of named objects are tables written as code: literal matrices, `coeff * np.array(l)`,
`vec = np.zeros(n); vec[i] = c`, sums of Pauli-basis elements, Kronecker products of small literal
maps, branches on the order of two qubit ids.  This module interprets exactly that fragment over the
*syntax trees* of /repo (nothing from quara is imported or executed): every value is a constant that
the source text determines.  Anything outside the fragment raises NotConst, which the rules report
as "not decided", never as a verdict.

Modelled library operations are the numpy/math primitives listed in NP_FUNCS / METHODS, applied to
constants.  Repository functions are evaluated by recursion into their own syntax trees; the only
modelled repository construct is the `MatrixBasis(list)` / `SparseMatrixBasis(list)` constructor,
which is represented by the list it wraps (indexing, iteration, len, `.basis`).
"""
from __future__ import annotations

import ast
import cmath
import itertools
import math
from typing import Any, Dict, List, Optional

import numpy as np

from .index import Class, Func
from .astutil import unparse


class NotConst(Exception):
    pass


class FuncRef:
    def __init__(self, func: Func):
        self.func = func


class Closure:
    """a nested function together with the environment it was defined in"""

    def __init__(self, func, env):
        self.func, self.env = func, env


class BasisVal:
    """MatrixBasis(list of matrices) represented by the list."""

    def __init__(self, items):
        self.items = list(items)


class _Return(Exception):
    def __init__(self, v):
        self.v = v


class _Break(Exception):
    pass


class _Continue(Exception):
    pass


DTYPES = {"complex128": np.complex128, "float64": np.float64, "int64": np.int64, "complex": complex, "float": float, "int": int}

NP_FUNCS = {
    "sqrt": np.sqrt, "exp": np.exp, "cos": np.cos, "sin": np.sin, "kron": np.kron, "conjugate": np.conjugate, "conj": np.conjugate,
    "diag": np.diag, "dot": np.dot, "matmul": np.matmul, "trace": np.trace, "transpose": np.transpose, "hstack": np.hstack,
    "vstack": np.vstack, "real": np.real, "imag": np.imag, "abs": np.abs, "outer": np.outer, "identity": np.identity,
    "sum": np.sum, "vdot": np.vdot, "copy": np.copy,
}
MATH_FUNCS = {"sqrt": math.sqrt, "exp": math.exp, "cos": math.cos, "sin": math.sin, "radians": math.radians}
METHODS = {"conj", "conjugate", "transpose", "copy", "flatten", "reshape", "dot", "tolist", "astype"}
MAX_STEPS = 400000
import operator as _operator
EXTERNAL_VALUES = {"operator.add": _operator.add, "operator.mul": _operator.mul, "operator.sub": _operator.sub,
                   "math.pi": math.pi, "numpy.pi": math.pi, "math.e": math.e}


class ConstEval:
    def __init__(self, ctx, max_depth: int = 8):
        self.ctx = ctx
        self.ix = ctx.ix
        self.max_depth = max_depth
        self.steps = 0
        self.funcs_entered = set()

    # ------------------------------------------------------------------ entry
    def call(self, func: Func, args: List[Any] = (), kwargs: Optional[Dict[str, Any]] = None, depth: int = 0, captured=None):
        if depth > self.max_depth:
            raise NotConst("call depth exceeded at %s" % func.qualname)
        self.funcs_entered.add(func.qualname)
        a = func.node.args
        pos = [p.arg for p in a.posonlyargs + a.args]
        env: Dict[str, Any] = dict(captured) if captured else {}
        for p in pos + [k.arg for k in a.kwonlyargs]:
            env.pop(p, None)
        if len(args) > len(pos):
            raise NotConst("too many arguments for %s" % func.name)
        for p, v in zip(pos, args):
            env[p] = v
        for k, v in (kwargs or {}).items():
            if k not in pos and k not in [p.arg for p in a.kwonlyargs]:
                raise NotConst("unexpected keyword %s for %s" % (k, func.name))
            env[k] = v
        defaults = dict(zip(pos[len(pos) - len(a.defaults):], a.defaults))
        for p in pos:
            if p not in env:
                if p in defaults:
                    env[p] = self.expr(defaults[p], {}, func, depth)
                else:
                    raise NotConst("argument %s of %s not supplied" % (p, func.name))
        for p, dv in zip(a.kwonlyargs, a.kw_defaults):
            if p.arg not in env:
                if dv is None:
                    raise NotConst("argument %s of %s not supplied" % (p.arg, func.name))
                env[p.arg] = self.expr(dv, {}, func, depth)
        try:
            self.block(func.node.body, env, func, depth)
        except _Return as r:
            return r.v
        return None

    def literals_through(self, func: Func, depth: int = 2):
        """literals(func), plus - for every call of a private helper of the repository whose arguments include constants -
        the literals of the helper with those parameters preset (so that a table handed to a shared helper is still found)."""
        from .resolve import bind_call
        out = list(self.literals(func))
        if depth <= 0:
            return out
        for n in ast.walk(func.node):
            if not isinstance(n, ast.Call):
                continue
            t = self.ix.resolve_expr(func.module, n.func, func) if not isinstance(n.func, ast.Call) else None
            if not isinstance(t, Func) or t is func:
                continue
            try:
                b, _ = bind_call(n, t, False)
            except Exception:
                continue
            preset = {}
            for p, e in b.items():
                try:
                    preset[p] = self.expr(e, {}, func, 1)
                except NotConst:
                    pass
            if preset:
                out += self.literals(t, preset=preset)
        return out

    def literals(self, func: Func, preset=None):
        """Tolerant pass over a function whose parameters are NOT constants: every assignment `name = <expr>` whose
        right-hand side evaluates in the constant fragment (using earlier such bindings) is recorded, in source order,
        with the chain of branch tests it sits under.  Statements outside the fragment are skipped.
        Returns [(name, value, guards, node)] with guards a tuple of (test source, taken?)."""
        out = []
        env: Dict[str, Any] = dict(preset or {})

        def inner(e, guards, st):
            """maximal constant sub-expressions (tables, vectors) written in place inside a non-constant expression"""
            if isinstance(e, (ast.Lambda, ast.ListComp, ast.GeneratorExp, ast.SetComp, ast.DictComp)):
                return
            if not isinstance(e, (ast.Name, ast.Constant, ast.Attribute)):
                try:
                    v = self.expr(e, env, func, 1)
                    if isinstance(v, (list, tuple)) or hasattr(v, "shape"):
                        out.append(("<expression>", v, guards, st))
                        return
                except NotConst:
                    pass
                except Exception:
                    pass
            for c in ast.iter_child_nodes(e):
                if isinstance(c, ast.expr):
                    inner(c, guards, st)
                elif isinstance(c, ast.keyword):
                    inner(c.value, guards, st)

        def walk(stmts, guards):
            for st in stmts:
                if isinstance(st, ast.Assign) and len(st.targets) == 1 and isinstance(st.targets[0], ast.Name):
                    try:
                        v = self.expr(st.value, env, func, 1)
                    except NotConst:
                        env.pop(st.targets[0].id, None)
                        inner(st.value, guards, st)
                        continue
                    env[st.targets[0].id] = v
                    out.append((st.targets[0].id, v, guards, st))
                elif isinstance(st, (ast.Return, ast.Expr, ast.Assign, ast.AnnAssign, ast.AugAssign)) and getattr(st, "value", None) is not None:
                    inner(st.value, guards, st)
                elif isinstance(st, ast.If):
                    t = unparse(st.test)
                    walk(st.body, guards + ((t, True),))
                    walk(st.orelse, guards + ((t, False),))
                elif isinstance(st, (ast.For, ast.While, ast.With, ast.Try)):
                    continue
        walk(func.node.body, ())
        return out

    # ------------------------------------------------------------- statements
    def block(self, stmts, env, f, depth):
        for s in stmts:
            self.stmt(s, env, f, depth)

    def stmt(self, s, env, f, depth):
        self.steps += 1
        if self.steps > MAX_STEPS:
            raise NotConst("step budget exhausted")
        if isinstance(s, ast.Expr):
            if isinstance(s.value, ast.Constant):
                return
            self.expr(s.value, env, f, depth)
            return
        if isinstance(s, ast.Return):
            raise _Return(self.expr(s.value, env, f, depth) if s.value is not None else None)
        if isinstance(s, ast.Assign):
            v = self.expr(s.value, env, f, depth)
            for t in s.targets:
                self.store(t, v, env, f, depth)
            return
        if isinstance(s, ast.AnnAssign):
            if s.value is not None:
                self.store(s.target, self.expr(s.value, env, f, depth), env, f, depth)
            return
        if isinstance(s, ast.AugAssign):
            cur = self.expr(_as_load(s.target), env, f, depth)
            v = self.binop(s.op, cur, self.expr(s.value, env, f, depth))
            self.store(s.target, v, env, f, depth)
            return
        if isinstance(s, ast.If):
            t = self.expr(s.test, env, f, depth)
            self.block(s.body if _truth(t) else s.orelse, env, f, depth)
            return
        if isinstance(s, ast.Assert):
            t = self.expr(s.test, env, f, depth)
            if not _truth(t):
                raise NotConst("assertion `%s` fails for the supplied constants" % unparse(s.test))
            return
        if isinstance(s, ast.For):
            it = self.expr(s.iter, env, f, depth)
            broke = False
            for v in _iterate(it):
                self.store(s.target, v, env, f, depth)
                try:
                    self.block(s.body, env, f, depth)
                except _Break:
                    broke = True
                    break
                except _Continue:
                    continue
            if not broke:
                self.block(s.orelse, env, f, depth)
            return
        if isinstance(s, ast.While):
            n = 0
            while _truth(self.expr(s.test, env, f, depth)):
                n += 1
                if n > 10000:
                    raise NotConst("while loop does not end within 10000 iterations")
                try:
                    self.block(s.body, env, f, depth)
                except _Break:
                    break
                except _Continue:
                    continue
            return
        if isinstance(s, ast.Break):
            raise _Break()
        if isinstance(s, ast.Continue):
            raise _Continue()
        if isinstance(s, (ast.FunctionDef,)):
            inner = f.nested.get(s.name)
            if inner is None:
                raise NotConst("nested function %s not indexed" % s.name)
            env[s.name] = Closure(inner, env)
            return
        if isinstance(s, ast.Pass):
            return
        if isinstance(s, ast.Raise):
            raise NotConst("raises: %s" % unparse(s)[:80])
        raise NotConst("statement outside the constant fragment: %s" % type(s).__name__)

    def store(self, t, v, env, f, depth):
        if isinstance(t, ast.Name):
            env[t.id] = v
        elif isinstance(t, (ast.Tuple, ast.List)):
            vs = list(_iterate(v))
            if len(vs) != len(t.elts):
                raise NotConst("unpacking mismatch")
            for e, x in zip(t.elts, vs):
                self.store(e, x, env, f, depth)
        elif isinstance(t, ast.Subscript):
            obj = self.expr(t.value, env, f, depth)
            idx = self.index(t.slice, env, f, depth)
            if isinstance(obj, np.ndarray):
                obj[idx] = v
            elif isinstance(obj, (list, dict)):
                obj[idx] = v
            else:
                raise NotConst("store into %s" % type(obj).__name__)
        else:
            raise NotConst("store target %s" % type(t).__name__)

    # ------------------------------------------------------------ expressions
    def index(self, sl, env, f, depth):
        if isinstance(sl, ast.Slice):
            return slice(*(None if x is None else self.expr(x, env, f, depth) for x in (sl.lower, sl.upper, sl.step)))
        if isinstance(sl, ast.Tuple):
            return tuple(self.index(e, env, f, depth) for e in sl.elts)
        return self.expr(sl, env, f, depth)

    def binop(self, op, a, b):
        if isinstance(a, (FuncRef, BasisVal)) or isinstance(b, (FuncRef, BasisVal)):
            raise NotConst("arithmetic on a non-numeric value")
        try:
            if isinstance(op, ast.Add):
                return a + b
            if isinstance(op, ast.Sub):
                return a - b
            if isinstance(op, ast.Mult):
                return a * b
            if isinstance(op, ast.Div):
                return a / b
            if isinstance(op, ast.FloorDiv):
                return a // b
            if isinstance(op, ast.Mod):
                return a % b
            if isinstance(op, ast.Pow):
                return a ** b
            if isinstance(op, ast.MatMult):
                return a @ b
        except NotConst:
            raise
        except Exception as ex:  # a shape error etc. in the constants themselves
            raise NotConst("constant arithmetic fails: %s" % ex)
        raise NotConst("operator %s" % type(op).__name__)

    def expr(self, e, env, f, depth):
        self.steps += 1
        if self.steps > MAX_STEPS:
            raise NotConst("step budget exhausted")
        if isinstance(e, ast.Constant):
            return e.value
        if isinstance(e, ast.Name):
            if e.id in env:
                return env[e.id]
            if e.id in ("True", "False", "None"):
                return {"True": True, "False": False, "None": None}[e.id]
            t = self.ix.scope_lookup(f.module, f, e.id)
            if isinstance(t, Func):
                return FuncRef(t)
            if isinstance(t, Class):
                return t
            if e.id in ("int", "float", "complex", "bool", "str"):
                return {"int": int, "float": float, "complex": complex, "bool": bool, "str": str}[e.id]
            if isinstance(t, str) and t in EXTERNAL_VALUES:
                return EXTERNAL_VALUES[t]
            # a module-level constant: bound exactly once at module level to a constant expression
            mod = f.module
            if e.id in mod.assigns:
                nb = sum(1 for st in mod.tree.body if isinstance(st, (ast.Assign, ast.AnnAssign, ast.AugAssign))
                         for tg in (st.targets if isinstance(st, ast.Assign) else [st.target]) if isinstance(tg, ast.Name) and tg.id == e.id)
                cache = self.__dict__.setdefault("_modconst", {})
                key = (mod.name, e.id)
                if nb == 1:
                    if key not in cache:
                        cache[key] = None
                        try:
                            cache[key] = ("ok", self.expr(mod.assigns[e.id], {}, f, depth))
                        except NotConst as ex:
                            cache[key] = ("no", str(ex))
                    if cache[key] and cache[key][0] == "ok":
                        return cache[key][1]
            raise NotConst("name %s is not a constant here" % e.id)
        if isinstance(e, (ast.List, ast.Tuple)):
            vs = [self.expr(x, env, f, depth) for x in e.elts]
            return vs if isinstance(e, ast.List) else tuple(vs)
        if isinstance(e, ast.Dict):
            return {self.expr(k, env, f, depth): self.expr(v, env, f, depth) for k, v in zip(e.keys, e.values)}
        if isinstance(e, ast.UnaryOp):
            v = self.expr(e.operand, env, f, depth)
            if isinstance(e.op, ast.USub):
                return -v
            if isinstance(e.op, ast.UAdd):
                return +v
            if isinstance(e.op, ast.Not):
                return not _truth(v)
            raise NotConst("unary operator")
        if isinstance(e, ast.BinOp):
            return self.binop(e.op, self.expr(e.left, env, f, depth), self.expr(e.right, env, f, depth))
        if isinstance(e, ast.BoolOp):
            vals = [self.expr(x, env, f, depth) for x in e.values]
            if isinstance(e.op, ast.And):
                return all(_truth(v) for v in vals)
            return any(_truth(v) for v in vals)
        if isinstance(e, ast.Compare):
            left = self.expr(e.left, env, f, depth)
            for op, c in zip(e.ops, e.comparators):
                right = self.expr(c, env, f, depth)
                if not self.compare(op, left, right):
                    return False
                left = right
            return True
        if isinstance(e, ast.IfExp):
            return self.expr(e.body if _truth(self.expr(e.test, env, f, depth)) else e.orelse, env, f, depth)
        if isinstance(e, ast.JoinedStr):
            out = ""
            for v in e.values:
                if isinstance(v, ast.Constant):
                    out += str(v.value)
                elif isinstance(v, ast.FormattedValue) and v.format_spec is None and v.conversion == -1:
                    out += str(self.expr(v.value, env, f, depth))
                else:
                    raise NotConst("formatted string")
            return out
        if isinstance(e, ast.Subscript):
            obj = self.expr(e.value, env, f, depth)
            idx = self.index(e.slice, env, f, depth)
            if isinstance(obj, BasisVal):
                obj = obj.items
            try:
                return obj[idx]
            except Exception as ex:
                raise NotConst("subscript fails: %s" % ex)
        if isinstance(e, ast.Attribute):
            return self.attribute(e, env, f, depth)
        if isinstance(e, (ast.ListComp, ast.GeneratorExp)):
            return self.comprehension(e, env, f, depth)
        if isinstance(e, ast.Call):
            return self.call_expr(e, env, f, depth)
        raise NotConst("expression outside the constant fragment: %s" % type(e).__name__)

    def compare(self, op, a, b):
        if isinstance(op, ast.Eq):
            r = a == b
        elif isinstance(op, ast.NotEq):
            r = a != b
        elif isinstance(op, ast.Lt):
            r = a < b
        elif isinstance(op, ast.LtE):
            r = a <= b
        elif isinstance(op, ast.Gt):
            r = a > b
        elif isinstance(op, ast.GtE):
            r = a >= b
        elif isinstance(op, ast.In):
            r = a in b
        elif isinstance(op, ast.NotIn):
            r = a not in b
        elif isinstance(op, ast.Is):
            r = a is b
        elif isinstance(op, ast.IsNot):
            r = a is not b
        else:
            raise NotConst("comparison")
        if isinstance(r, np.ndarray):
            raise NotConst("array comparison used as a truth value")
        return bool(r)

    def comprehension(self, e, env, f, depth):
        out = []

        def rec(i, env2):
            if i == len(e.generators):
                out.append(self.expr(e.elt, env2, f, depth))
                return
            g = e.generators[i]
            for v in _iterate(self.expr(g.iter, env2, f, depth)):
                env3 = dict(env2)
                self.store(g.target, v, env3, f, depth)
                if all(_truth(self.expr(c, env3, f, depth)) for c in g.ifs):
                    rec(i + 1, env3)
        rec(0, dict(env))
        return out

    def attribute(self, e, env, f, depth):
        # module constants
        if isinstance(e.value, ast.Name) and e.value.id not in env:
            m = e.value.id
            if m in ("np", "numpy"):
                if e.attr == "pi":
                    return math.pi
                if e.attr in DTYPES:
                    return DTYPES[e.attr]
                if e.attr == "e":
                    return math.e
            if m == "math" and e.attr in ("pi", "e"):
                return getattr(math, e.attr)
        v = self.expr(e.value, env, f, depth)
        if isinstance(v, np.ndarray) or isinstance(v, (complex, float, int, np.generic)):
            if e.attr == "T":
                return np.asarray(v).T
            if e.attr in ("real", "imag", "shape", "size", "ndim"):
                return getattr(np.asarray(v), e.attr)
        if isinstance(v, BasisVal) and e.attr == "basis":
            return v.items
        raise NotConst("attribute %s of %s" % (e.attr, type(v).__name__))

    def call_expr(self, e, env, f, depth):
        fn = e.func
        args = lambda: [self.expr(a, env, f, depth) for a in e.args]
        kwargs = lambda: {k.arg: self.expr(k.value, env, f, depth) for k in e.keywords if k.arg is not None}
        if any(isinstance(a, ast.Starred) for a in e.args) or any(k.arg is None for k in e.keywords):
            raise NotConst("star arguments")
        # library functions reached through the module's imports (whatever the local alias)
        ext = self._external(fn, env, f)
        if ext is not None:
            mod, _, a = ext.rpartition(".")
            if mod == "numpy":
                return self.numpy_call(a, args(), kwargs())
            if mod == "math" and a in MATH_FUNCS:
                return MATH_FUNCS[a](*args())
            if ext == "itertools.product":
                kw = kwargs()
                return list(itertools.product(*[list(_iterate(x)) for x in args()], repeat=kw.get("repeat", 1)))
            if ext in ("copy.copy", "copy.deepcopy"):
                v = args()[0]
                return v.copy() if isinstance(v, np.ndarray) else (list(v) if isinstance(v, list) else v)
            if ext == "functools.reduce":
                vs = args()
                if len(vs) in (2, 3) and callable(vs[0]) and vs[0] in (_operator.add, _operator.mul, _operator.sub):
                    it = list(_iterate(vs[1]))
                    if len(vs) == 3:
                        it = [vs[2]] + it
                    if not it:
                        raise NotConst("reduce of an empty sequence")
                    acc = it[0]
                    for x in it[1:]:
                        acc = vs[0](acc, x)
                    return acc
                raise NotConst("reduce with a function outside the modelled ones")
        # numpy / math / itertools module functions
        if isinstance(fn, ast.Attribute) and isinstance(fn.value, ast.Name) and fn.value.id not in env:
            m, a = fn.value.id, fn.attr
            if m in ("np", "numpy"):
                return self.numpy_call(a, args(), kwargs())
            if m == "math" and a in MATH_FUNCS:
                return MATH_FUNCS[a](*args())
            if m == "itertools" and a == "product":
                return list(itertools.product(*[list(_iterate(x)) for x in args()]))
            if m == "copy" and a in ("copy", "deepcopy"):
                v = args()[0]
                return v.copy() if isinstance(v, np.ndarray) else (list(v) if isinstance(v, list) else v)
        if isinstance(fn, ast.Name) and fn.id not in env:
            b = fn.id
            if b == "int":
                return int(*args())
            if b in ("float", "complex", "len", "abs", "str", "tuple", "list", "sum", "min", "max", "sorted", "bool", "round"):
                vs = args()
                if b == "len" and isinstance(vs[0], BasisVal):
                    return len(vs[0].items)
                if b in ("tuple", "list") and vs and isinstance(vs[0], BasisVal):
                    return list(vs[0].items)
                return {"float": float, "complex": complex, "len": len, "abs": abs, "str": str, "tuple": tuple, "list": list, "sum": sum,
                        "min": min, "max": max, "sorted": sorted, "bool": bool, "round": round}[b](*vs)
            if b in ("all", "any"):
                vs = args()
                return all(_iterate(vs[0])) if b == "all" else any(_iterate(vs[0]))
            if b == "range":
                return range(*args())
            if b == "enumerate":
                return list(enumerate(_iterate(args()[0])))
            if b == "zip":
                return list(zip(*[list(_iterate(x)) for x in args()]))
            if b == "eval":
                vs = args()
                if len(vs) != 1 or not isinstance(vs[0], str) or not vs[0].isidentifier():
                    raise NotConst("eval of a non-identifier")
                t = self.ix.scope_lookup(f.module, f, vs[0])
                if isinstance(t, Func):
                    return FuncRef(t)
                raise NotConst("eval(%r) does not name a function of the module" % vs[0])
        # methods of constant values
        if isinstance(fn, ast.Attribute) and fn.attr in METHODS:
            recv = self.expr(fn.value, env, f, depth)
            if isinstance(recv, (np.ndarray, np.generic, complex, float, int)):
                try:
                    return getattr(np.asarray(recv), fn.attr)(*args(), **kwargs())
                except NotConst:
                    raise
                except Exception as ex:
                    raise NotConst("method %s fails on the constants: %s" % (fn.attr, ex))
        if isinstance(fn, ast.Attribute) and fn.attr in ("join", "split", "startswith", "endswith", "replace", "lower", "upper", "strip", "format"):
            recv = self.expr(fn.value, env, f, depth)
            if isinstance(recv, str):
                vs = args()
                if fn.attr == "join":
                    vs = [list(_iterate(vs[0]))]
                return getattr(recv, fn.attr)(*vs, **kwargs())
        if isinstance(fn, ast.Attribute) and fn.attr in ("append", "count", "index", "extend"):
            recv = self.expr(fn.value, env, f, depth)
            if isinstance(recv, list):
                return getattr(recv, fn.attr)(*args())
            if isinstance(recv, (str, tuple)) and fn.attr in ("count", "index"):
                return getattr(recv, fn.attr)(*args())
        # repository functions / function values
        callee = self.expr(fn, env, f, depth) if not isinstance(fn, ast.Attribute) else None
        if callee is None and isinstance(fn, ast.Attribute):
            t = self.ix.resolve_expr(f.module, fn, f)
            callee = FuncRef(t) if isinstance(t, Func) else t
        if isinstance(callee, FuncRef):
            return self.call(callee.func, args(), kwargs(), depth + 1)
        if isinstance(callee, Closure):
            return self.call(callee.func, args(), kwargs(), depth + 1, captured=callee.env)
        if isinstance(callee, Class) and callee.name in ("MatrixBasis", "SparseMatrixBasis"):
            vs = args()
            return BasisVal(vs[0])
        raise NotConst("call outside the constant fragment: %s" % unparse(e)[:80])

    def _external(self, fn, env, f):
        from .index import dotted
        d = dotted(fn)
        if d is None:
            return None
        head = d.split(".")[0]
        if head in env:
            return None
        t = self.ix.scope_lookup(f.module, f, head)
        if isinstance(t, str):
            return t + d[len(head):]
        return None

    def numpy_call(self, a, args, kwargs):
        try:
            dt = kwargs.pop("dtype", None)
            if a in ("array", "asarray"):
                if len(args) == 2 and dt is None:
                    dt = args[1]
                x = args[0]
                if isinstance(x, BasisVal):
                    x = x.items
                return np.array(x, dtype=dt)
            if a in ("zeros", "ones"):
                if len(args) == 2 and dt is None:
                    dt = args[1]
                return getattr(np, a)(args[0], dtype=dt or np.float64)
            if a == "eye":
                return np.eye(*args, dtype=dt or np.float64)
            if a in NP_FUNCS:
                return NP_FUNCS[a](*args, **kwargs)
        except NotConst:
            raise
        except Exception as ex:
            raise NotConst("np.%s fails on the constants: %s" % (a, ex))
        raise NotConst("np.%s is outside the modelled primitives" % a)


def _as_load(t):
    import copy
    t2 = copy.copy(t)
    t2.ctx = ast.Load()
    return t2


def _truth(v):
    if isinstance(v, np.ndarray):
        raise NotConst("array used as a truth value")
    return bool(v)


def _iterate(v):
    if isinstance(v, BasisVal):
        return list(v.items)
    if isinstance(v, (list, tuple, range, str)):
        return list(v)
    if isinstance(v, np.ndarray):
        return list(v)
    if isinstance(v, dict):
        return list(v)
    raise NotConst("iteration over %s" % type(v).__name__)


# ------------------------------------------------------------------ numeric helpers on constants
def expm(a: np.ndarray) -> np.ndarray:
    """matrix exponential by scaling and squaring with a Taylor series (constants are at most 64x64)."""
    a = np.asarray(a, dtype=np.complex128)
    nrm = np.linalg.norm(a, 1)
    s = max(0, int(math.ceil(math.log2(nrm))) + 1) if nrm > 0 else 0
    b = a / (2 ** s)
    out = np.eye(a.shape[0], dtype=np.complex128)
    term = np.eye(a.shape[0], dtype=np.complex128)
    for k in range(1, 30):
        term = term @ b / k
        out = out + term
    for _ in range(s):
        out = out @ out
    return out


def close(a, b, tol=1e-10) -> bool:
    a, b = np.asarray(a), np.asarray(b)
    return a.shape == b.shape and bool(np.all(np.abs(a - b) <= tol))
