"""Pre-computed basis tables of CompositeSystem: how each table is laid out (which loop variables
index its rows, in which order each element matrix is flattened, whether it is stored transposed /
conjugated) and how a consumer's coefficient vector / result reshape has to be oriented to match.

The layout is read off the builder code on every run; nothing about it is assumed.  A builder or
consumer outside the recognised forms yields a reason string (-> UNDECIDED), never a verdict.
"""
from __future__ import annotations

import ast
from typing import Dict, List, Optional, Tuple, Union

from .astutil import clone, is_num, unparse
from .index import Func, dotted, own_nodes, parents
from .matexpr import product

BUILDERS = ("_calc_basis_sparse", "_calc_basis_basisconjugate_sparse")
CS = "quara.objects.composite_system.CompositeSystem"


class Subst(ast.NodeTransformer):
    def __init__(self, m):
        self.m = m

    def visit_Name(self, n):
        return clone(self.m[n.id]) if n.id in self.m else n


def canon(e: ast.AST):
    """kron(a, b) / matrix-product normal form, as nested tuples of (text, conj, transposed)."""
    if isinstance(e, ast.Call) and (dotted(e.func) or "").split(".")[-1] == "kron" and len(e.args) == 2:
        return ("kron", canon(e.args[0]), canon(e.args[1]))
    return tuple(product(e))


def _flatten_helper_ok(ctx) -> bool:
    """matrix_util.flatten returns <its argument>.flatten() (C order)"""
    f = ctx.ix.funcs.get("quara.utils.matrix_util.flatten")
    if f is None:
        return False
    rets = [n for n in own_nodes(f.node) if isinstance(n, ast.Return)]
    return len(rets) == 1 and unparse(rets[0].value) == "%s.flatten()" % f.params[0]


def flat_order(ctx, e: ast.AST) -> Tuple[Optional[str], ast.AST]:
    """('C'|'F'|None, matrix expression) for a flattening expression."""
    def order_of_args(call, default="C"):
        o = None
        if call.args:
            o = call.args[0]
        for k in call.keywords:
            if k.arg == "order":
                o = k.value
        if o is None:
            return default
        if isinstance(o, ast.Constant) and o.value in ("C", "F"):
            return o.value
        return None
    if isinstance(e, ast.Call) and isinstance(e.func, ast.Attribute):
        a = e.func.attr
        dn = dotted(e.func) or ""
        if dn.split(".")[-1] == "flatten" and dn.split(".")[0] in ("mutil", "matrix_util") and len(e.args) == 1 and _flatten_helper_ok(ctx):
            order, base = "C", e.args[0]
        elif a in ("flatten", "ravel") and len(e.args) + len(e.keywords) <= 1:
            order, base = order_of_args(e), e.func.value
        elif a == "reshape" and len(e.args) == 1 and not e.keywords and is_num(e.args[0], -1):
            order, base = "C", e.func.value
        elif a == "reshape" and len(e.args) == 2 and not e.keywords and is_num(e.args[0], 1):
            order, base = "C", e.func.value
        else:
            return None, e
        if order is None:
            return None, e
        # a transposed operand flips the order
        p = base
        flips = 0
        while True:
            if isinstance(p, ast.Attribute) and p.attr == "T":
                p, flips = p.value, flips + 1
            elif isinstance(p, ast.Call) and isinstance(p.func, ast.Attribute) and p.func.attr == "transpose" and not p.args:
                p, flips = p.func.value, flips + 1
            elif isinstance(p, ast.Call) and (dotted(p.func) or "") in ("np.transpose", "numpy.transpose") and len(p.args) == 1:
                p, flips = p.args[0], flips + 1
            else:
                break
        if flips % 2:
            order = "F" if order == "C" else "C"
        return order, p
    return None, e


class Table:
    def __init__(self, field, transposed, conj, rows, elem, elem_order, offset, node, builder):
        self.field, self.transposed, self.conj = field, transposed, conj
        self.rows, self.elem, self.elem_order, self.offset = rows, elem, elem_order, offset
        self.node, self.builder = node, builder

    def describe(self):
        return "%s: rows indexed by %s, elements %s flattened in %s order%s%s" % (
            self.field, "(%s)" % ", ".join(self.rows), unparse(self.elem), self.elem_order,
            ", stored transposed" if self.transposed else "", ", conjugated" if self.conj else "")


def analyse_builders(ctx) -> Dict[str, Union[Table, str]]:
    out: Dict[str, Union[Table, str]] = {}
    cs = ctx.ix.cls(CS)
    for bn in BUILDERS:
        b = cs.methods.get(bn)
        if b is None:
            continue
        for n in own_nodes(b.node):
            if isinstance(n, ast.Assign) and len(n.targets) == 1 and isinstance(n.targets[0], ast.Attribute) \
                    and isinstance(n.targets[0].value, ast.Name) and n.targets[0].value.id == "self" and n.targets[0].attr.startswith("_"):
                out[n.targets[0].attr] = _table(ctx, b, n)
    return out


def _table(ctx, b: Func, st: ast.Assign) -> Union[Table, str]:
    field = st.targets[0].attr
    e = st.value
    tr = conj = False
    while True:
        if isinstance(e, ast.Call) and (dotted(e.func) or "").split(".")[-1] in ("csr_matrix", "csc_matrix") and len(e.args) == 1:
            e = e.args[0]
        elif isinstance(e, ast.Attribute) and e.attr == "T":
            e, tr = e.value, not tr
        elif isinstance(e, ast.Call) and isinstance(e.func, ast.Attribute) and e.func.attr in ("conjugate", "conj") and not e.args:
            e, conj = e.func.value, not conj
        else:
            break
    # the stacking step may be part of the stored expression or a (re)binding of a local: <sparse.>vstack(L).reshape(rows, size) / np.array(L)
    def unstack(x):
        """the list name L behind a stacking expression, or None"""
        if isinstance(x, ast.Call) and isinstance(x.func, ast.Attribute) and x.func.attr == "reshape" and len(x.args) in (1, 2) and not x.keywords:
            x = x.func.value
        if isinstance(x, ast.Call) and (dotted(x.func) or "").split(".")[-1] in ("vstack", "array") and len(x.args) == 1 and not x.keywords \
                and isinstance(x.args[0], ast.Name):
            return x.args[0].id
        return None
    hops = 0
    while not isinstance(e, ast.Name):
        inner = unstack(e)
        if inner is None or hops > 3:
            return "stored value `%s` is not a (transposed / conjugated) stacked list" % unparse(st.value)
        e = ast.Name(id=inner, ctx=ast.Load())
        hops += 1
        break
    lst = e.id
    # re-bindings of the name: follow them back to the list the rows are appended to
    for _ in range(4):
        binds = [n for n in own_nodes(b.node) if isinstance(n, ast.Assign) and len(n.targets) == 1 and isinstance(n.targets[0], ast.Name)
                 and n.targets[0].id == lst and unparse(n.value) != "[]"]
        if not binds:
            break
        if len(binds) > 1:
            return "%s is re-bound more than once" % lst
        src = unstack(binds[0].value)
        if src is None:
            return "%s is re-bound by `%s`" % (lst, unparse(binds[0].value)[:60])
        if src == lst:
            break
        lst = src
    apps = [n for n in own_nodes(b.node) if isinstance(n, ast.Call) and isinstance(n.func, ast.Attribute) and n.func.attr == "append"
            and unparse(n.func.value) == lst and len(n.args) == 1]
    if len(apps) != 1:
        return "expected one %s.append(...), found %d" % (lst, len(apps))
    app = apps[0]
    loop = None
    for p in parents(app):
        if isinstance(p, ast.For):
            loop = p
            break
    if loop is None:
        return "%s.append is not in a loop" % lst
    if any(isinstance(p, ast.For) for p in parents(loop) if p is not loop and not isinstance(p, (ast.FunctionDef, ast.ClassDef, ast.Module))):
        return "nested loops"
    it = loop.iter
    if isinstance(it, ast.Call) and (dotted(it.func) or "").split(".")[-1] == "product" and len(it.args) == 2 \
            and unparse(it.args[0]) == unparse(it.args[1]) and unparse(it.args[0]).startswith("range(") \
            and isinstance(loop.target, ast.Tuple) and len(loop.target.elts) == 2 and all(isinstance(x, ast.Name) for x in loop.target.elts):
        rows = tuple(x.id for x in loop.target.elts)
    elif isinstance(it, ast.Name) and isinstance(loop.target, ast.Name):
        rows = (loop.target.id,)
    else:
        return "loop `for %s in %s` is outside the recognised forms" % (unparse(loop.target), unparse(it)[:60])
    off = 0
    from .astutil import guards_of, stmt_of
    gs = guards_of(stmt_of(app), stop=loop)
    # conditions from the loop body's own guard clauses (`if ...: continue`) are found when walking up to the loop
    from .astutil import _guard_clauses
    top = stmt_of(app)
    for p in parents(app):
        if p is loop:
            break
        top = p if isinstance(p, ast.stmt) else top
    extra = []
    _guard_clauses(loop.body, top, extra)
    gs = gs + [g for g in extra if g not in gs]
    if gs:
        atoms = {(t, pol) for t, pol, _ in gs}
        want = {("%s == 0" % r, False) for r in rows} if len(rows) == 2 else None
        if want is not None and atoms == want:
            off = 1
        else:
            return "append is guarded by `%s`" % " and ".join(("" if pol else "not ") + t for t, pol, _ in gs)
    defs = {}
    for s in ast.walk(loop):
        if isinstance(s, ast.Assign) and len(s.targets) == 1 and isinstance(s.targets[0], ast.Name) and s.targets[0].id not in rows:
            if s.targets[0].id in defs:
                return "loop local %s is bound twice" % s.targets[0].id
            defs[s.targets[0].id] = s.value
    x = clone(app.args[0])
    for _ in range(5):
        x = Subst(defs).visit(x)
    order, elem = flat_order(ctx, x)
    if order is None:
        return "appended element `%s` is not a flattened matrix" % unparse(x)[:80]
    return Table(field, tr, conj, rows, elem, order, off, st, b)


class Use:
    """one `<c_sys>.<table>.dot(ARG)` site"""

    def __init__(self, f: Func, call: ast.Call, table: str, argx: ast.AST):
        self.f, self.call, self.table, self.arg = f, call, table, argx


def uses(ctx, prefix="quara.") -> List[Use]:
    cs = ctx.ix.cls(CS)
    names = {m for m in cs.methods if ("_" + m) in _fields(cs)}
    out = []
    for f in ctx.ix.funcs.values():
        if not f.module.name.startswith(prefix) or f.module.name == "quara.objects.composite_system":
            continue
        for n in own_nodes(f.node):
            if isinstance(n, ast.Call) and isinstance(n.func, ast.Attribute) and n.func.attr == "dot" and len(n.args) == 1 \
                    and isinstance(n.func.value, ast.Attribute) and n.func.value.attr in names:
                out.append(Use(f, n, n.func.value.attr, n.args[0]))
    return out


def _fields(cs) -> set:
    out = set()
    for bn in BUILDERS:
        b = cs.methods.get(bn)
        if b is None:
            continue
        for n in own_nodes(b.node):
            if isinstance(n, ast.Assign) and len(n.targets) == 1 and isinstance(n.targets[0], ast.Attribute) \
                    and isinstance(n.targets[0].value, ast.Name) and n.targets[0].value.id == "self":
                out.add(n.targets[0].attr)
    return out


def result_reshape(f: Func, call: ast.Call) -> Tuple[Optional[str], Optional[ast.AST]]:
    """order of the reshape applied to the product's result: ('C'|'F'|None, reshape node); (None, None) if
    the result is not reshaped (a vector result)."""
    par = getattr(call, "_parent", None)
    name = None
    # the product may be reshaped in place: <table>.dot(x).reshape(...)
    if isinstance(par, ast.Attribute) and par.attr == "reshape" and isinstance(getattr(par, "_parent", None), ast.Call) and par._parent.func is par:
        n = par._parent
        order = "C"
        for k in n.keywords:
            if k.arg == "order":
                order = k.value.value if isinstance(k.value, ast.Constant) and k.value.value in ("C", "F") else None
        p2 = getattr(n, "_parent", None)
        if isinstance(p2, ast.Attribute) and p2.attr == "T" and order is not None:
            order = "F" if order == "C" else "C"
        return order, n
    if isinstance(par, ast.Assign) and len(par.targets) == 1 and isinstance(par.targets[0], ast.Name):
        name = par.targets[0].id
    if name is None:
        return None, None
    for n in own_nodes(f.node):
        if isinstance(n, ast.Call) and isinstance(n.func, ast.Attribute) and n.func.attr == "reshape" and isinstance(n.func.value, ast.Name) \
                and n.func.value.id == name:
            order = "C"
            for k in n.keywords:
                if k.arg == "order":
                    order = k.value.value if isinstance(k.value, ast.Constant) and k.value.value in ("C", "F") else None
            # a transpose applied to the reshaped matrix flips it
            p = getattr(n, "_parent", None)
            if isinstance(p, ast.Attribute) and p.attr == "T" and order is not None:
                order = "F" if order == "C" else "C"
            return order, n
    return None, None
