"""Canonical form of the analysed source, applied to every module when it is loaded.

The rules decide properties of behaviour, so they should not depend on which of several equivalent spellings the
author chose.  A few equivalences are mechanical enough to be removed once, here, before any rule looks at the
program; each rewrite below preserves behaviour exactly and keeps the positions of the nodes it retains, so reports
still point at the right lines.

  C1  copy temporaries     `t = E` immediately followed by `x = t` / `x: T = t` / `return t` / `yield`-free `t` as the
                           whole value, where t is bound once and read once in the function  ->  `x = E` / `return E`
                           (the statement pair is adjacent, so no evaluation is reordered)
  C2  negated branches     `if not c: A else: B` -> `if c: B else: A` (whenever there is an else branch; `elif` is an else
                           branch holding one `if`);  `A if not c else B` -> `B if c else A`
  C3  double negation      `not not c` in a test position -> `c`
"""
from __future__ import annotations

import ast
from typing import Dict, List


def _fn_nodes(fn):
    """all nodes of the function including nested scopes (a temporary read by a closure is not a copy temporary)"""
    return ast.walk(fn)


class _Canon:
    def __init__(self):
        self.n_copy = 0
        self.n_neg = 0

    # ------------------------------------------------------------------ C1
    def _copy_temps(self, fn):
        changed = True
        while changed:
            changed = False
            stores: Dict[str, int] = {}
            loads: Dict[str, int] = {}
            special = set()
            for n in _fn_nodes(fn):
                if isinstance(n, ast.Name):
                    if isinstance(n.ctx, ast.Load):
                        loads[n.id] = loads.get(n.id, 0) + 1
                    else:
                        stores[n.id] = stores.get(n.id, 0) + 1
                elif isinstance(n, (ast.Global, ast.Nonlocal)):
                    special |= set(n.names)
                elif isinstance(n, ast.arg):
                    special.add(n.arg)
            nested_reads = set()
            for n in _fn_nodes(fn):
                if n is not fn and isinstance(n, (ast.FunctionDef, ast.AsyncFunctionDef, ast.Lambda, ast.ClassDef)):
                    nested_reads |= {x.id for x in ast.walk(n) if isinstance(x, ast.Name)}
            for blk in self._own_blocks(fn):
                i = 0
                while i + 1 < len(blk):
                    a, b = blk[i], blk[i + 1]
                    if isinstance(a, ast.Assign) and len(a.targets) == 1 and isinstance(a.targets[0], ast.Name):
                        t = a.targets[0].id
                        # `t = E; return t`: nothing runs after the return, so t may be bound elsewhere too - unless a nested scope reads it
                        if isinstance(b, ast.Return) and isinstance(b.value, ast.Name) and b.value.id == t and t not in special \
                                and t not in nested_reads and not any(isinstance(x, ast.Name) and x.id == t for x in ast.walk(a.value)):
                            b.value = a.value
                            del blk[i]
                            self.n_copy += 1
                            changed = True
                            continue
                        if stores.get(t) == 1 and loads.get(t) == 1 and t not in special:
                            use = None
                            if isinstance(b, ast.Assign) and isinstance(b.value, ast.Name) and b.value.id == t and len(b.targets) == 1 \
                                    and isinstance(b.targets[0], ast.Name):
                                use = "value"
                            elif isinstance(b, ast.AnnAssign) and isinstance(b.value, ast.Name) and b.value.id == t and isinstance(b.target, ast.Name):
                                use = "value"
                            elif isinstance(b, ast.Return) and isinstance(b.value, ast.Name) and b.value.id == t:
                                use = "value"
                            if use:
                                b.value = a.value
                                del blk[i]
                                self.n_copy += 1
                                changed = True
                                stores[t] = 0
                                loads[t] = 0
                                continue
                    i += 1

    @staticmethod
    def _own_blocks(fn):
        """statement blocks of fn itself (nested function / class bodies are handled when they are visited on their own)"""
        todo = [fn]
        while todo:
            n = todo.pop()
            for field in ("body", "orelse", "finalbody"):
                blk = getattr(n, field, None)
                if isinstance(blk, list) and blk and isinstance(blk[0], ast.stmt):
                    yield blk
                    for st in blk:
                        if not isinstance(st, (ast.FunctionDef, ast.AsyncFunctionDef, ast.ClassDef)):
                            todo.append(st)
            if isinstance(n, ast.Try):
                for h in n.handlers:
                    yield h.body
                    for st in h.body:
                        if not isinstance(st, (ast.FunctionDef, ast.AsyncFunctionDef, ast.ClassDef)):
                            todo.append(st)

    @staticmethod
    def _blocks(fn):
        # blocks of nested scopes are included: the use counts above are taken over the whole function, nested scopes included
        for n in ast.walk(fn):
            for field in ("body", "orelse", "finalbody"):
                blk = getattr(n, field, None)
                if isinstance(blk, list) and blk and isinstance(blk[0], ast.stmt):
                    yield blk
            if isinstance(n, ast.Try):
                for h in n.handlers:
                    yield h.body

    # ------------------------------------------------------------------ C2 / C3
    @staticmethod
    def _strip_double_not(t):
        while isinstance(t, ast.UnaryOp) and isinstance(t.op, ast.Not) and isinstance(t.operand, ast.UnaryOp) and isinstance(t.operand.op, ast.Not):
            t = t.operand.operand
        return t

    def _negated(self, tree):
        for n in ast.walk(tree):
            if isinstance(n, (ast.If, ast.While, ast.IfExp, ast.Assert)):
                n.test = self._strip_double_not(n.test)
            if isinstance(n, ast.If) and n.orelse and isinstance(n.test, ast.UnaryOp) and isinstance(n.test.op, ast.Not):
                n.test = n.test.operand
                n.body, n.orelse = n.orelse, n.body
                self.n_neg += 1
            elif isinstance(n, ast.IfExp) and isinstance(n.test, ast.UnaryOp) and isinstance(n.test.op, ast.Not):
                n.test = n.test.operand
                n.body, n.orelse = n.orelse, n.body
                self.n_neg += 1

    def run(self, tree: ast.Module) -> ast.Module:
        self._negated(tree)
        for n in ast.walk(tree):
            if isinstance(n, (ast.FunctionDef, ast.AsyncFunctionDef)):
                self._copy_temps(n)
        return tree


def canonicalise(tree: ast.Module):
    """rewrites `tree` in place; returns (copy temporaries removed, negated branches flipped)"""
    c = _Canon()
    c.run(tree)
    return c.n_copy, c.n_neg
