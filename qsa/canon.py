"""Canonical form of the analysed source, applied to every module when it is loaded.

The rules decide properties of behaviour, so they should not depend on which of several equivalent spellings the
author chose.  A few equivalences are mechanical enough to be removed once, here, before any rule looks at the
program; each rewrite below preserves behaviour exactly and keeps the positions of the nodes it retains, so reports
still point at the right lines.

  C1  copy temporaries     `t = E` immediately followed by `x = t` / `x: T = t` / `return t` / `yield`-free `t` as the
                           whole value, where t is bound once and read once in the function  ->  `x = E` / `return E`
                           (the statement pair is adjacent, so no evaluation is reordered)
  C2  negated branches     `if not c: A else: B` -> `if c: B else: A` (whenever there is an else branch; `elif` is an else
                           branch holding one `if`);  `A if not c else B` -> `B if c else A`
  C3  double negation      `not not c` in a test position -> `c`
  C4  guard clauses        `if c: ...jump else: REST` -> `if c: ...jump` followed by REST (jump = return / raise / continue /
                           break as the last statement); when only the else branch jumps the test is negated first
  C5  single-use temps     `t = E` immediately followed by a statement (or the test of an `if` / the iterable of a `for`) that reads t once, before anything with a possible effect is
                           evaluated in it -> E written in place (t bound once, read once).  Attribute reads and subscripts of
                           plain names are taken to be effect-free and independent of E - the one assumption made here.
  C7  local annotations    `x: T = E` on a plain local name inside a function -> `x = E` (the annotation of a local is never evaluated
                           or stored, PEP 526)
  C6  named constants      a name bound exactly once in the module, at module level, to a number / string / bool / None literal or
                           to a tuple of such literals, never declared `global` and never stored to anywhere else in the module, is
                           replaced by the literal wherever a function reads it as a global (`_TYPE_INDEX = 0 ... item[_TYPE_INDEX]`
                           -> `item[0]`).  A tuple is immutable, so writing it out at each use is not observable except through
                           `is`; the binding itself stays.  (Re-binding a module attribute from outside the module - monkey
                           patching - is outside what any of the rules models.)
"""
from __future__ import annotations

import ast
from typing import Dict, List


def _fn_nodes(fn):
    """all nodes of the function including nested scopes (a temporary read by a closure is not a copy temporary)"""
    return ast.walk(fn)


class _Canon:
    def __init__(self):
        self.n_copy = 0
        self.n_neg = 0
        self.n_guard = 0

    # ------------------------------------------------------------------ C1
    def _copy_temps(self, fn):
        changed = True
        while changed:
            changed = False
            stores: Dict[str, int] = {}
            loads: Dict[str, int] = {}
            special = set()
            for n in _fn_nodes(fn):
                if isinstance(n, ast.Name):
                    if isinstance(n.ctx, ast.Load):
                        loads[n.id] = loads.get(n.id, 0) + 1
                    else:
                        stores[n.id] = stores.get(n.id, 0) + 1
                elif isinstance(n, (ast.Global, ast.Nonlocal)):
                    special |= set(n.names)
                elif isinstance(n, ast.arg):
                    special.add(n.arg)
            nested_reads = set()
            for n in _fn_nodes(fn):
                if n is not fn and isinstance(n, (ast.FunctionDef, ast.AsyncFunctionDef, ast.Lambda, ast.ClassDef)):
                    nested_reads |= {x.id for x in ast.walk(n) if isinstance(x, ast.Name)}
            for blk in self._own_blocks(fn):
                i = 0
                while i + 1 < len(blk):
                    a, b = blk[i], blk[i + 1]
                    if isinstance(a, ast.Assign) and len(a.targets) == 1 and isinstance(a.targets[0], ast.Name):
                        t = a.targets[0].id
                        # `t = E; return t`: nothing runs after the return, so t may be bound elsewhere too - unless a nested scope reads it
                        if isinstance(b, ast.Return) and isinstance(b.value, ast.Name) and b.value.id == t and t not in special \
                                and t not in nested_reads and not any(isinstance(x, ast.Name) and x.id == t for x in ast.walk(a.value)):
                            b.value = a.value
                            del blk[i]
                            self.n_copy += 1
                            changed = True
                            continue
                        if stores.get(t) == 1 and loads.get(t) == 1 and t not in special:
                            use = None
                            if isinstance(b, ast.Assign) and isinstance(b.value, ast.Name) and b.value.id == t and len(b.targets) == 1 \
                                    and isinstance(b.targets[0], ast.Name):
                                use = "value"
                            elif isinstance(b, ast.AnnAssign) and isinstance(b.value, ast.Name) and b.value.id == t and isinstance(b.target, ast.Name):
                                use = "value"
                            elif isinstance(b, ast.Return) and isinstance(b.value, ast.Name) and b.value.id == t:
                                use = "value"
                            if use:
                                b.value = a.value
                                del blk[i]
                                self.n_copy += 1
                                changed = True
                                stores[t] = 0
                                loads[t] = 0
                                continue
                    i += 1

    @staticmethod
    def _own_blocks(fn):
        """statement blocks of fn itself (nested function / class bodies are handled when they are visited on their own)"""
        todo = [fn]
        while todo:
            n = todo.pop()
            for field in ("body", "orelse", "finalbody"):
                blk = getattr(n, field, None)
                if isinstance(blk, list) and blk and isinstance(blk[0], ast.stmt):
                    yield blk
                    for st in blk:
                        if not isinstance(st, (ast.FunctionDef, ast.AsyncFunctionDef, ast.ClassDef)):
                            todo.append(st)
            if isinstance(n, ast.Try):
                for h in n.handlers:
                    yield h.body
                    for st in h.body:
                        if not isinstance(st, (ast.FunctionDef, ast.AsyncFunctionDef, ast.ClassDef)):
                            todo.append(st)

    @staticmethod
    def _blocks(fn):
        # blocks of nested scopes are included: the use counts above are taken over the whole function, nested scopes included
        for n in ast.walk(fn):
            for field in ("body", "orelse", "finalbody"):
                blk = getattr(n, field, None)
                if isinstance(blk, list) and blk and isinstance(blk[0], ast.stmt):
                    yield blk
            if isinstance(n, ast.Try):
                for h in n.handlers:
                    yield h.body

    # ------------------------------------------------------------------ C2 / C3
    @staticmethod
    def _strip_double_not(t):
        while isinstance(t, ast.UnaryOp) and isinstance(t.op, ast.Not) and isinstance(t.operand, ast.UnaryOp) and isinstance(t.operand.op, ast.Not):
            t = t.operand.operand
        return t

    def _negated(self, tree):
        for n in ast.walk(tree):
            if isinstance(n, (ast.If, ast.While, ast.IfExp, ast.Assert)):
                n.test = self._strip_double_not(n.test)
            if isinstance(n, ast.If) and n.orelse and isinstance(n.test, ast.UnaryOp) and isinstance(n.test.op, ast.Not):
                n.test = n.test.operand
                n.body, n.orelse = n.orelse, n.body
                self.n_neg += 1
            elif isinstance(n, ast.IfExp) and isinstance(n.test, ast.UnaryOp) and isinstance(n.test.op, ast.Not):
                n.test = n.test.operand
                n.body, n.orelse = n.orelse, n.body
                self.n_neg += 1

    # ------------------------------------------------------------------ C4
    @staticmethod
    def _jumps(body) -> bool:
        return bool(body) and isinstance(body[-1], (ast.Return, ast.Raise, ast.Continue, ast.Break))

    def _guard_clauses(self, tree):
        """`if c: ...jump  else: REST`  ->  `if c: ...jump` ; REST     (and `if c: A else: ...jump` -> `if not c: ...jump` ; A)"""
        # inner blocks first: whether a branch ends in a jump is only settled once the blocks inside it are in canonical form
        for n in reversed(list(ast.walk(tree))):
            for field in ("body", "orelse", "finalbody"):
                blk = getattr(n, field, None)
                if isinstance(blk, list) and blk and isinstance(blk[0], ast.stmt):
                    # the last member of an if / elif / else chain keeps its shape when only its else branch jumps
                    # (`... elif b: Y else: raise` is the usual dispatch-with-error idiom, not a guard clause)
                    is_elif = isinstance(n, ast.If) and field == "orelse" and len(blk) == 1 and isinstance(blk[0], ast.If)
                    self._flatten(blk, is_elif)
            if isinstance(n, ast.Try):
                for h in n.handlers:
                    self._flatten(h.body, False)

    def _flatten(self, blk, is_elif):
        i = 0
        while i < len(blk):
            s = blk[i]
            if isinstance(s, ast.If) and s.orelse:
                bj, ej = self._jumps(s.body), self._jumps(s.orelse)
                chain_head = len(s.orelse) == 1 and isinstance(s.orelse[0], ast.If)
                if not bj and ej and not is_elif and not chain_head:
                    t = s.test
                    s.test = t.operand if isinstance(t, ast.UnaryOp) and isinstance(t.op, ast.Not) else ast.copy_location(ast.UnaryOp(op=ast.Not(), operand=t), t)
                    s.body, s.orelse = s.orelse, s.body
                    bj = True
                if bj:
                    rest = s.orelse
                    s.orelse = []
                    blk[i + 1:i + 1] = rest
                    self.n_guard += 1
            i += 1

    # ------------------------------------------------------------------ C5
    def _single_use_temps(self, fn):
        """`t = E` immediately followed by a statement whose value reads t exactly once, before anything that could have an effect is
        evaluated in that statement (names, constants, attribute reads and subscripts of those are taken to be effect-free), t bound once
        and read once in the function  ->  E is written in place of t."""
        changed = True
        while changed:
            changed = False
            stores: Dict[str, int] = {}
            loads: Dict[str, int] = {}
            special = set()
            for n in _fn_nodes(fn):
                if isinstance(n, ast.Name):
                    if isinstance(n.ctx, ast.Load):
                        loads[n.id] = loads.get(n.id, 0) + 1
                    else:
                        stores[n.id] = stores.get(n.id, 0) + 1
                elif isinstance(n, (ast.Global, ast.Nonlocal)):
                    special |= set(n.names)
                elif isinstance(n, ast.arg):
                    special.add(n.arg)
            for blk in self._own_blocks(fn):
                i = 0
                while i + 1 < len(blk):
                    a, b = blk[i], blk[i + 1]
                    if isinstance(a, ast.Assign) and len(a.targets) == 1 and isinstance(a.targets[0], ast.Name) \
                            and isinstance(b, (ast.If, ast.For)):
                        # the test of an `if` / the iterable of a `for` is evaluated once, before anything else of that statement
                        t = a.targets[0].id
                        fld = "test" if isinstance(b, ast.If) else "iter"
                        if stores.get(t) == 1 and loads.get(t) == 1 and t not in special \
                                and not isinstance(a.value, (ast.Yield, ast.YieldFrom, ast.Await, ast.Lambda, ast.ListComp, ast.GeneratorExp, ast.DictComp, ast.SetComp)) \
                                and self._reached_first(getattr(b, fld), t) == "found":
                            setattr(b, fld, self._subst(getattr(b, fld), t, a.value))
                            del blk[i]
                            self.n_copy += 1
                            changed = True
                            stores[t] = 0
                            loads[t] = 0
                            continue
                    if isinstance(a, ast.Assign) and len(a.targets) == 1 and isinstance(a.targets[0], ast.Name) \
                            and isinstance(b, (ast.Assign, ast.Expr, ast.Return, ast.AugAssign, ast.AnnAssign)) and getattr(b, "value", None) is not None:
                        t = a.targets[0].id
                        if stores.get(t) == 1 and loads.get(t) == 1 and t not in special \
                                and not isinstance(a.value, (ast.Yield, ast.YieldFrom, ast.Await, ast.Lambda, ast.ListComp, ast.GeneratorExp, ast.DictComp, ast.SetComp)):
                            # the targets of b must not mention t, and an augmented target is read before the value is computed
                            tg = b.targets if isinstance(b, ast.Assign) else [b.target] if isinstance(b, (ast.AugAssign, ast.AnnAssign)) else []
                            if any(isinstance(x, ast.Name) and x.id == t for g in tg for x in ast.walk(g)):
                                i += 1
                                continue
                            if isinstance(b, ast.AugAssign) and not isinstance(b.target, ast.Name):
                                i += 1
                                continue
                            if self._reached_first(b.value, t) == "found":
                                b.value = self._subst(b.value, t, a.value)
                                del blk[i]
                                self.n_copy += 1
                                changed = True
                                stores[t] = 0
                                loads[t] = 0
                                continue
                    i += 1

    @staticmethod
    def _subst(e, t, val):
        if isinstance(e, ast.Name) and e.id == t:
            return val

        class S(ast.NodeTransformer):
            def visit_Name(self, n):
                return val if n.id == t and isinstance(n.ctx, ast.Load) else n
        return S().visit(e)

    def _reached_first(self, e, t) -> str:
        """'found' if the read of t is reached, in evaluation order, before any call / operator on non-trivial operands has run;
        'pure' if e is effect-free and does not mention t; 'stop' otherwise"""
        if isinstance(e, ast.Name):
            return "found" if e.id == t else "pure"
        if isinstance(e, ast.Constant):
            return "pure"
        if isinstance(e, ast.Attribute):
            return self._reached_first(e.value, t)
        if isinstance(e, ast.Starred):
            return self._reached_first(e.value, t)
        if isinstance(e, ast.Subscript):
            r = self._reached_first(e.value, t)
            return r if r != "pure" else self._reached_first(e.slice, t)
        if isinstance(e, ast.Slice):
            for x in (e.lower, e.upper, e.step):
                if x is not None:
                    r = self._reached_first(x, t)
                    if r != "pure":
                        return r
            return "pure"
        if isinstance(e, (ast.Tuple, ast.List, ast.Set)):
            for x in e.elts:
                r = self._reached_first(x, t)
                if r != "pure":
                    return r
            return "pure"
        if isinstance(e, ast.UnaryOp):
            r = self._reached_first(e.operand, t)
            return r if r == "found" else "stop"
        if isinstance(e, ast.BinOp):
            r = self._reached_first(e.left, t)
            if r != "pure":
                return r
            r = self._reached_first(e.right, t)
            return r if r == "found" else "stop"
        if isinstance(e, ast.Compare) and len(e.comparators) == 1:
            r = self._reached_first(e.left, t)
            if r != "pure":
                return r
            r = self._reached_first(e.comparators[0], t)
            return r if r == "found" else "stop"
        if isinstance(e, ast.Call):
            r = self._reached_first(e.func, t)
            if r != "pure":
                return r
            for a in e.args:
                r = self._reached_first(a, t)
                if r != "pure":
                    return r
            for k in e.keywords:
                r = self._reached_first(k.value, t)
                if r != "pure":
                    return r
            return "stop"
        if isinstance(e, ast.BoolOp):
            r = self._reached_first(e.values[0], t)
            return r if r == "found" else "stop"
        if isinstance(e, ast.IfExp):
            r = self._reached_first(e.test, t)
            return r if r == "found" else "stop"
        return "stop"

    # ------------------------------------------------------------------ C6
    @staticmethod
    def _literal(e):
        def scalar(x):
            if isinstance(x, ast.Constant) and (x.value is None or isinstance(x.value, (bool, int, float, str))):
                return not (isinstance(x.value, str) and len(x.value) > 80)
            return isinstance(x, ast.UnaryOp) and isinstance(x.op, ast.USub) and isinstance(x.operand, ast.Constant) \
                and isinstance(x.operand.value, (int, float)) and not isinstance(x.operand.value, bool)
        return scalar(e) or (isinstance(e, ast.Tuple) and bool(e.elts) and all(scalar(x) for x in e.elts))

    def _named_constants(self, tree: ast.Module):
        import copy
        cand = {}
        for st in tree.body:
            if isinstance(st, ast.Assign) and len(st.targets) == 1 and isinstance(st.targets[0], ast.Name) and self._literal(st.value):
                cand.setdefault(st.targets[0].id, []).append(st)
            elif isinstance(st, ast.AnnAssign) and isinstance(st.target, ast.Name) and st.value is not None and self._literal(st.value):
                cand.setdefault(st.target.id, []).append(st)
        if not cand:
            return
        stores: Dict[str, int] = {}
        for n in ast.walk(tree):
            if isinstance(n, ast.Name) and isinstance(n.ctx, (ast.Store, ast.Del)):
                stores[n.id] = stores.get(n.id, 0) + 1
            elif isinstance(n, (ast.Global, ast.Nonlocal)):
                for nm in n.names:
                    stores[nm] = stores.get(nm, 0) + 2
            elif isinstance(n, ast.arg):
                stores[n.arg] = stores.get(n.arg, 0) + 2
            elif isinstance(n, (ast.FunctionDef, ast.AsyncFunctionDef, ast.ClassDef)):
                stores[n.name] = stores.get(n.name, 0) + 2
            elif isinstance(n, ast.alias):
                nm = (n.asname or n.name).split(".")[0]
                stores[nm] = stores.get(nm, 0) + 2
            elif isinstance(n, ast.ExceptHandler) and n.name:
                stores[n.name] = stores.get(n.name, 0) + 2
        consts = {k: (v[0].value) for k, v in cand.items() if len(v) == 1 and stores.get(k, 0) == 1}
        if not consts:
            return

        class Sub(ast.NodeTransformer):
            def visit_Name(self_, n):
                if isinstance(n.ctx, ast.Load) and n.id in consts:
                    new = copy.deepcopy(consts[n.id])
                    for x in ast.walk(new):
                        ast.copy_location(x, n)
                    self.n_copy += 1
                    return new
                return n
        for st in tree.body:
            for fn in ast.walk(st):
                if isinstance(fn, (ast.FunctionDef, ast.AsyncFunctionDef)):
                    fn.body = [Sub().visit(b) for b in fn.body]

    # ------------------------------------------------------------------ C7
    def _local_annotations(self, tree: ast.Module):
        for fn in ast.walk(tree):
            if not isinstance(fn, (ast.FunctionDef, ast.AsyncFunctionDef)):
                continue
            for blk in self._own_blocks(fn):
                for i, st in enumerate(blk):
                    if isinstance(st, ast.AnnAssign) and st.value is not None and isinstance(st.target, ast.Name) and st.simple:
                        new = ast.Assign(targets=[st.target], value=st.value)
                        ast.copy_location(new, st)
                        new.type_comment = None
                        blk[i] = new

    def run(self, tree: ast.Module) -> ast.Module:
        self._named_constants(tree)
        self._local_annotations(tree)
        self._negated(tree)
        self._guard_clauses(tree)
        for n in ast.walk(tree):
            if isinstance(n, (ast.FunctionDef, ast.AsyncFunctionDef)):
                self._copy_temps(n)
                self._single_use_temps(n)
        return tree


def canonicalise(tree: ast.Module):
    """rewrites `tree` in place; returns (copy temporaries removed, negated branches flipped)"""
    c = _Canon()
    c.run(tree)
    return c.n_copy, c.n_neg
