"""E1 - program index: modules, imports, classes (with MRO), functions, nested closures.

Everything is built from `ast.parse` of the files under <repo>/quara.  Parent links are
attached to every node (`node._parent`) and every function-like node gets `node._func`
(the innermost enclosing Func).  Nothing is imported or executed.
"""
from __future__ import annotations

import ast
import os
from typing import Dict, Iterator, List, Optional, Tuple, Union


class AnalysisError(Exception):
    """The analysis itself cannot answer (anchor vanished, fragment left, floor missed)."""


def norm_src(node_or_text) -> str:
    """Whitespace/line-independent text of a node (used to key findings)."""
    if isinstance(node_or_text, ast.AST):
        try:
            text = ast.unparse(node_or_text)
        except Exception:  # pragma: no cover
            text = ast.dump(node_or_text)
    else:
        text = str(node_or_text)
    return " ".join(text.split())


def dotted(node: ast.AST) -> Optional[str]:
    """`a.b.c` -> 'a.b.c' for Name/Attribute chains, else None."""
    parts = []
    while isinstance(node, ast.Attribute):
        parts.append(node.attr)
        node = node.value
    if isinstance(node, ast.Name):
        parts.append(node.id)
        return ".".join(reversed(parts))
    return None


class Func:
    def __init__(self, name, qualname, module, cls, node, parent, kind):
        self.name: str = name
        self.qualname: str = qualname
        self.module: "Module" = module
        self.cls: Optional["Class"] = cls
        self.node: ast.FunctionDef = node
        self.parent: Optional["Func"] = parent
        self.kind: str = kind  # function|method|static|classmethod|property|setter
        self.nested: Dict[str, "Func"] = {}
        self.local_imports: Dict[str, str] = {}

    # ---- parameters -------------------------------------------------------------
    @property
    def all_params(self) -> List[ast.arg]:
        a = self.node.args
        return list(a.posonlyargs) + list(a.args) + list(a.kwonlyargs)

    @property
    def params(self) -> List[str]:
        """Parameter names as a caller sees them (without self/cls)."""
        names = [p.arg for p in self.all_params]
        if self.kind in ("method", "property", "setter", "classmethod") and names:
            names = names[1:]
        return names

    @property
    def self_name(self) -> Optional[str]:
        if self.kind in ("method", "property", "setter") and self.all_params:
            return self.all_params[0].arg
        return None

    def param_defaults(self) -> Dict[str, ast.AST]:
        a = self.node.args
        pos = list(a.posonlyargs) + list(a.args)
        out = {}
        for p, d in zip(pos[len(pos) - len(a.defaults):], a.defaults):
            out[p.arg] = d
        for p, d in zip(a.kwonlyargs, a.kw_defaults):
            if d is not None:
                out[p.arg] = d
        return out

    def param_annotation(self, name: str) -> Optional[ast.AST]:
        for p in self.all_params:
            if p.arg == name:
                return p.annotation
        return None

    @property
    def file(self) -> str:
        return self.module.relpath

    @property
    def line(self) -> int:
        return self.node.lineno

    def __repr__(self):
        return "<Func %s>" % self.qualname


class Class:
    def __init__(self, name, qualname, module, node):
        self.name = name
        self.qualname = qualname
        self.module: "Module" = module
        self.node: ast.ClassDef = node
        self.methods: Dict[str, Func] = {}
        self.setters: Dict[str, Func] = {}
        self.class_attrs: Dict[str, ast.AST] = {}
        self.bases: List["Class"] = []
        self.ext_bases: List[str] = []
        self.subclasses: List["Class"] = []
        self._mro: Optional[List["Class"]] = None

    def mro(self) -> List["Class"]:
        if self._mro is None:
            seqs = [b.mro() for b in self.bases] + [list(self.bases)]
            res = [self]
            seqs = [list(s) for s in seqs if s]
            while seqs:
                for s in seqs:
                    cand = s[0]
                    if not any(cand in t[1:] for t in seqs):
                        break
                else:  # inconsistent hierarchy - fall back to DFS order
                    cand = seqs[0][0]
                res.append(cand)
                seqs = [[c for c in s if c is not cand] for s in seqs]
                seqs = [s for s in seqs if s]
            self._mro = res
        return self._mro

    def lookup(self, name: str) -> Optional[Func]:
        for c in self.mro():
            if name in c.methods:
                return c.methods[name]
        return None

    def lookup_setter(self, name: str) -> Optional[Func]:
        for c in self.mro():
            if name in c.setters:
                return c.setters[name]
        return None

    def all_subclasses(self) -> List["Class"]:
        out, todo = [], list(self.subclasses)
        while todo:
            c = todo.pop()
            if c not in out:
                out.append(c)
                todo.extend(c.subclasses)
        return out

    def overrides(self, name: str) -> List[Func]:
        """The implementation seen from this class plus every override below it."""
        out = []
        f = self.lookup(name)
        if f:
            out.append(f)
        for c in self.all_subclasses():
            if name in c.methods and c.methods[name] not in out:
                out.append(c.methods[name])
        return out

    def is_subclass_of(self, other: "Class") -> bool:
        return other in self.mro()

    def has_member(self, name: str) -> bool:
        for c in self.mro():
            if name in c.methods or name in c.setters or name in c.class_attrs:
                return True
        return False

    def __repr__(self):
        return "<Class %s>" % self.qualname


class Module:
    def __init__(self, name, path, relpath, tree, src):
        self.name = name
        self.path = path
        self.relpath = relpath
        self.tree: ast.Module = tree
        self.src = src
        self.lines = src.splitlines()
        self.imports: Dict[str, str] = {}
        self.funcs: Dict[str, Func] = {}
        self.classes: Dict[str, Class] = {}
        self.assigns: Dict[str, ast.AST] = {}

    def __repr__(self):
        return "<Module %s>" % self.name


Target = Union[Func, Class, Module, str]


class Index:
    def __init__(self, repo: str, package: str = "quara"):
        self.repo = repo
        self.package = package
        self.modules: Dict[str, Module] = {}
        self.funcs: Dict[str, Func] = {}
        self.classes: Dict[str, Class] = {}
        self.parse_errors: List[str] = []
        self.canon_stats = [0, 0]
        self._load()
        self._link_classes()

    # ------------------------------------------------------------------ loading
    def _load(self):
        root = os.path.join(self.repo, self.package)
        if not os.path.isdir(root):
            raise AnalysisError("package directory %s not found" % root)
        for dirpath, dirnames, filenames in os.walk(root):
            dirnames.sort()
            for fn in sorted(filenames):
                if not fn.endswith(".py"):
                    continue
                path = os.path.join(dirpath, fn)
                rel = os.path.relpath(path, self.repo)
                modname = rel[:-3].replace(os.sep, ".")
                if modname.endswith(".__init__"):
                    modname = modname[: -len(".__init__")]
                try:
                    with open(path, "rb") as fh:
                        raw = fh.read()
                    src = raw.decode("utf-8", errors="replace")
                    tree = ast.parse(src, filename=rel)
                    from .canon import canonicalise
                    nc, nn = canonicalise(tree)
                    self.canon_stats[0] += nc
                    self.canon_stats[1] += nn
                except SyntaxError as e:
                    self.parse_errors.append("%s: %s" % (rel, e))
                    continue
                mod = Module(modname, path, rel, tree, src)
                self.modules[modname] = mod
                self._index_module(mod)

    def _index_module(self, mod: Module):
        for n in ast.walk(mod.tree):
            for ch in ast.iter_child_nodes(n):
                ch._parent = n  # type: ignore[attr-defined]
        mod.tree._parent = None  # type: ignore[attr-defined]
        mod.tree._module = mod  # type: ignore[attr-defined]
        self._collect_imports(mod.tree.body, mod.imports, mod, toplevel=True)
        for st in mod.tree.body:
            self._index_stmt(st, mod, None, None)
        # tag every node with its innermost function
        self._tag(mod.tree, None)

    def _tag(self, node, func):
        for ch in ast.iter_child_nodes(node):
            f = getattr(ch, "_funcobj", None)
            ch._func = func  # type: ignore[attr-defined]
            self._tag(ch, f if f is not None else func)

    def _collect_imports(self, body, table, mod: Module, toplevel=False):
        for st in body:
            if isinstance(st, ast.Import):
                for a in st.names:
                    if a.asname:
                        table[a.asname] = a.name
                    else:
                        table[a.name.split(".")[0]] = a.name.split(".")[0]
            elif isinstance(st, ast.ImportFrom):
                base = st.module or ""
                if st.level:
                    pkg = mod.name.split(".")
                    if not mod.relpath.endswith("__init__.py"):
                        pkg = pkg[:-1]
                    pkg = pkg[: len(pkg) - (st.level - 1)]
                    base = ".".join(pkg + ([st.module] if st.module else []))
                for a in st.names:
                    if a.name == "*":
                        table.setdefault("*", "")
                        table["*"] = (table["*"] + " " + base).strip()
                    else:
                        table[a.asname or a.name] = base + "." + a.name
            elif toplevel and isinstance(st, (ast.If, ast.Try)):
                for sub in ast.iter_child_nodes(st):
                    if isinstance(sub, ast.stmt):
                        self._collect_imports([sub], table, mod, toplevel=True)
                    elif isinstance(sub, ast.ExceptHandler):
                        self._collect_imports(sub.body, table, mod, toplevel=True)

    def _func_kind(self, node, cls) -> str:
        kind = "method" if cls is not None else "function"
        for d in node.decorator_list:
            dn = dotted(d) or ""
            if dn == "staticmethod":
                kind = "static"
            elif dn == "classmethod":
                kind = "classmethod"
            elif dn == "property":
                kind = "property"
            elif dn.endswith(".setter"):
                kind = "setter"
        return kind

    def _index_stmt(self, st, mod: Module, cls: Optional[Class], parent: Optional[Func]):
        if isinstance(st, (ast.FunctionDef, ast.AsyncFunctionDef)):
            kind = self._func_kind(st, cls if parent is None else None)
            if parent is not None:
                qn = parent.qualname + ".<locals>." + st.name
            elif cls is not None:
                qn = cls.qualname + "." + st.name + (".setter" if kind == "setter" else "")
            else:
                qn = mod.name + "." + st.name
            f = Func(st.name, qn, mod, cls if parent is None else (parent.cls), st, parent, kind)
            st._funcobj = f  # type: ignore[attr-defined]
            self.funcs[qn] = f
            if parent is not None:
                parent.nested[st.name] = f
            elif cls is not None:
                if kind == "setter":
                    cls.setters[st.name] = f
                else:
                    cls.methods[st.name] = f
            else:
                mod.funcs[st.name] = f
            self._collect_imports(
                [s for s in ast.walk(st) if isinstance(s, (ast.Import, ast.ImportFrom))],
                f.local_imports, mod)
            for sub in self._nested_defs(st.body):
                self._index_stmt(sub, mod, None, f)
        elif isinstance(st, ast.ClassDef):
            if parent is not None:
                return
            qn = (cls.qualname if cls else mod.name) + "." + st.name
            c = Class(st.name, qn, mod, st)
            self.classes[qn] = c
            if cls is None:
                mod.classes[st.name] = c
            for sub in st.body:
                if isinstance(sub, ast.Assign):
                    for t in sub.targets:
                        if isinstance(t, ast.Name):
                            c.class_attrs[t.id] = sub.value
                elif isinstance(sub, ast.AnnAssign) and isinstance(sub.target, ast.Name):
                    c.class_attrs[sub.target.id] = sub.value
                else:
                    self._index_stmt(sub, mod, c, None)
        elif isinstance(st, ast.Assign) and cls is None and parent is None:
            for t in st.targets:
                if isinstance(t, ast.Name):
                    mod.assigns[t.id] = st.value
        elif isinstance(st, (ast.If, ast.Try)) and cls is None and parent is None:
            for sub in ast.walk(st):
                if sub is not st and isinstance(sub, (ast.FunctionDef, ast.ClassDef)):
                    if getattr(sub, "_parent", None) is st or True:
                        pass
            for sub in st.body:
                self._index_stmt(sub, mod, cls, parent)

    def _nested_defs(self, body) -> Iterator[ast.AST]:
        """Function definitions nested anywhere in `body` but not inside another def."""
        todo = list(body)
        while todo:
            n = todo.pop(0)
            if isinstance(n, (ast.FunctionDef, ast.AsyncFunctionDef)):
                yield n
                continue
            if isinstance(n, (ast.ClassDef, ast.Lambda)):
                continue
            todo.extend(ast.iter_child_nodes(n))

    def _link_classes(self):
        for c in self.classes.values():
            for b in c.node.bases:
                t = self.resolve_expr(c.module, b)
                if isinstance(t, Class):
                    c.bases.append(t)
                    t.subclasses.append(c)
                else:
                    c.ext_bases.append(t if isinstance(t, str) else (dotted(b) or "?"))

    # --------------------------------------------------------------- resolution
    def resolve_dotted(self, name: str, _depth=0) -> Optional[Target]:
        """Resolve an absolute dotted name to a repo entity, or return the name itself
        (external) when it does not start in the repo package."""
        if _depth > 8:
            return None
        parts = name.split(".")
        if parts[0] != self.package:
            return name
        # longest module prefix
        for i in range(len(parts), 0, -1):
            mn = ".".join(parts[:i])
            if mn in self.modules:
                cur: Target = self.modules[mn]
                rest = parts[i:]
                break
        else:
            return None
        for j, p in enumerate(rest):
            if isinstance(cur, Module):
                if p in cur.classes:
                    cur = cur.classes[p]
                elif p in cur.funcs:
                    cur = cur.funcs[p]
                elif p in cur.imports:
                    sub = self.resolve_dotted(cur.imports[p], _depth + 1)
                    if sub is None:
                        return None
                    cur = sub
                elif cur.name + "." + p in self.modules:
                    cur = self.modules[cur.name + "." + p]
                elif p in cur.assigns:
                    return "%s.%s" % (cur.name, ".".join(rest[j:]))  # module-level value
                else:
                    return None
            elif isinstance(cur, Class):
                m = cur.lookup(p)
                if m is not None:
                    cur = m
                elif cur.has_member(p):
                    return "%s.%s" % (cur.qualname, p)
                else:
                    return None
            elif isinstance(cur, str):
                cur = cur + "." + p
            else:
                return None
        return cur

    def scope_lookup(self, mod: Module, func: Optional[Func], name: str) -> Optional[Target]:
        """Resolve a bare identifier seen inside `func` (or at module level)."""
        f = func
        while f is not None:
            if name in f.nested:
                return f.nested[name]
            if name in f.local_imports:
                return self.resolve_dotted(f.local_imports[name])
            f = f.parent
        if name in mod.funcs:
            return mod.funcs[name]
        if name in mod.classes:
            return mod.classes[name]
        if name in mod.imports:
            return self.resolve_dotted(mod.imports[name])
        return None

    def resolve_expr(self, mod: Module, node: ast.AST, func: Optional[Func] = None) -> Optional[Target]:
        """Resolve a Name/Attribute chain that denotes a module-level entity."""
        d = dotted(node)
        if d is None:
            return None
        parts = d.split(".")
        head = self.scope_lookup(mod, func, parts[0])
        if head is None:
            return None
        cur: Optional[Target] = head
        for p in parts[1:]:
            if isinstance(cur, str):
                cur = cur + "." + p
            elif isinstance(cur, Module):
                cur = self.resolve_dotted(cur.name + "." + p)
            elif isinstance(cur, Class):
                m = cur.lookup(p)
                if m is None:
                    return "%s.%s" % (cur.qualname, p) if cur.has_member(p) else None
                cur = m
            else:
                return None
            if cur is None:
                return None
        return cur

    # ------------------------------------------------------------------ helpers
    def func(self, qualname: str) -> Func:
        f = self.funcs.get(qualname)
        if f is None:
            raise AnalysisError("anchor function %s not found in the current tree" % qualname)
        return f

    def cls(self, qualname: str) -> Class:
        c = self.classes.get(qualname)
        if c is None:
            raise AnalysisError("anchor class %s not found in the current tree" % qualname)
        return c

    def module(self, name: str) -> Module:
        m = self.modules.get(name)
        if m is None:
            raise AnalysisError("anchor module %s not found in the current tree" % name)
        return m

    def funcs_in(self, *module_prefixes: str) -> List[Func]:
        out = []
        for qn, f in self.funcs.items():
            if any(f.module.name == p or f.module.name.startswith(p + ".") for p in module_prefixes):
                out.append(f)
        return out


def enclosing_func(node: ast.AST) -> Optional[Func]:
    return getattr(node, "_func", None)


def parents(node: ast.AST) -> Iterator[ast.AST]:
    p = getattr(node, "_parent", None)
    while p is not None:
        yield p
        p = getattr(p, "_parent", None)


def own_nodes(func_node: ast.AST) -> Iterator[ast.AST]:
    """All nodes of a function body excluding nested function/class/lambda bodies (and the
    function's own decorators, which are evaluated in the enclosing scope)."""
    decos = set(id(d) for d in getattr(func_node, "decorator_list", []))
    todo = [c for c in ast.iter_child_nodes(func_node) if id(c) not in decos]
    while todo:
        n = todo.pop()
        yield n
        if isinstance(n, (ast.FunctionDef, ast.AsyncFunctionDef, ast.ClassDef, ast.Lambda)):
            continue
        todo.extend(ast.iter_child_nodes(n))


def own_stmts(func_node: ast.AST) -> Iterator[ast.stmt]:
    for n in own_nodes(func_node):
        if isinstance(n, ast.stmt):
            yield n
