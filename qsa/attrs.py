"""Attribute facts: which `self.x` a method reads / writes, and which attributes a
constructor has definitely assigned at a program point (super().__init__ included)."""
from __future__ import annotations

import ast
from typing import Dict, List, Optional, Set

from .cfg import CFG, definite_assignment
from .index import Class, Func, dotted, own_nodes


def self_attr_loads(func: Func) -> Dict[str, List[ast.Attribute]]:
    out: Dict[str, List[ast.Attribute]] = {}
    s = func.self_name
    if not s:
        return out
    for n in own_nodes(func.node):
        if isinstance(n, ast.Attribute) and isinstance(n.value, ast.Name) and n.value.id == s and isinstance(n.ctx, ast.Load):
            out.setdefault(n.attr, []).append(n)
    return out


def self_attr_stores(func: Func) -> Dict[str, List[ast.Attribute]]:
    out: Dict[str, List[ast.Attribute]] = {}
    s = func.self_name
    if not s:
        return out
    for n in own_nodes(func.node):
        if isinstance(n, ast.Attribute) and isinstance(n.value, ast.Name) and n.value.id == s and isinstance(n.ctx, (ast.Store, ast.Del)):
            out.setdefault(n.attr, []).append(n)
    return out


def must_attrs_at(ctx, init: Func, node=None, _depth=0) -> Set[str]:
    """Attributes (`_x`) definitely assigned when control reaches CFG node `node` of the
    constructor `init` (or its normal exit when node is None), counting what
    `super().__init__(...)` / `Base.__init__(self, ...)` definitely assigns, and what
    `self.method(...)` calls definitely assign on their own normal exit."""
    cfg: CFG = ctx.cfg(init)
    s = init.self_name
    da = definite_assignment(cfg, [p.arg for p in init.all_params])
    target = cfg.exit if node is None else node
    names = da.get(target.id, set())
    attrs = {n.split(".", 1)[1] for n in names if s and n.startswith(s + ".") and n.count(".") == 1}
    if _depth > 4:
        return attrs
    # calls that dominate the target and definitely assign attributes themselves
    for n in cfg.nodes:
        if n.kind != "stmt" or not isinstance(n.ast, ast.Expr) or not isinstance(n.ast.value, ast.Call):
            continue
        if not cfg.dominates(n, target) or n is target:
            continue
        call = n.ast.value
        fn = call.func
        callee: Optional[Func] = None
        if isinstance(fn, ast.Attribute):
            if isinstance(fn.value, ast.Call) and dotted(fn.value.func) == "super" and init.cls is not None:
                for c in init.cls.mro()[1:]:
                    if fn.attr in c.methods:
                        callee = c.methods[fn.attr]
                        break
            elif isinstance(fn.value, ast.Name) and fn.value.id == s and init.cls is not None:
                callee = init.cls.lookup(fn.attr)
            else:
                t = ctx.ix.resolve_expr(init.module, fn, init)
                if isinstance(t, Func) and t.cls is not None and init.cls is not None and t.cls in init.cls.mro():
                    callee = t
        if callee is not None and callee.self_name:
            attrs |= must_attrs_at(ctx, callee, None, _depth + 1)
    return attrs


def attr_read_cone(ctx, cls: Class, root: Func, max_depth=6) -> Dict[str, List[str]]:
    """Attributes of `self` read by `root` and by the methods/properties it reaches through
    `self` (resolved on `cls`): attr -> chain of method names that reads it."""
    out: Dict[str, List[str]] = {}
    seen: Set[str] = set()
    todo = [(root, [root.name])]
    while todo:
        f, chain = todo.pop(0)
        if f.qualname in seen or len(chain) > max_depth:
            continue
        seen.add(f.qualname)
        s = f.self_name
        if not s:
            continue
        for n in own_nodes(f.node):
            if isinstance(n, ast.Attribute) and isinstance(n.value, ast.Name) and n.value.id == s and isinstance(n.ctx, ast.Load):
                m = cls.lookup(n.attr)
                if m is not None:
                    todo.append((m, chain + [m.name]))
                elif n.attr.startswith("_") and not n.attr.startswith("__"):
                    out.setdefault(n.attr, chain)
    return out
