"""Path-sensitive symbolic summaries of (mostly loop-free) functions.

`cases(func)` enumerates the control-flow paths of a function body (if / elif / else, guard clauses
with early return, conditional expressions are left inside the expressions) and gives, per path,

    guards : [(atom text, polarity, atom node)]   conditions taken, conjunctions split, `== True`,
                                                   `not x is None`, De Morgan normalised
    value  : the returned expression with every local replaced by the expression it holds ON THAT PATH
    stores : {local name: [(index text, value expr)]} subscript stores into locals on that path
    raised : True when the path ends in `raise`

so that a rule can ask "what does this function return when the flag is set?" without depending on
whether the author wrote a conditional expression, an if/else with a result variable, or a guard
clause with an early return, and without depending on the names of locals.

Loops are not unrolled: a name assigned inside a loop is left as a bare Name in the summaries (the
rule that cares about the loop analyses it itself).  Paths are capped (MAX_PATHS); beyond that the
function is reported as too branchy (None).
"""
from __future__ import annotations

import ast
from typing import Dict, List, Optional

from .astutil import clone, conjuncts, unparse
from .index import Func

MAX_PATHS = 64


class Case:
    def __init__(self, guards, value, stores, raised, ret_node, attrs=None):
        self.guards, self.value, self.stores, self.raised, self.ret_node = guards, value, stores, raised, ret_node
        self.attrs = dict(attrs or {})      # 'self.x' -> (value with locals substituted, statement): the LAST store on this path
        rv = getattr(ret_node, "value", None)
        self.ret_name = rv.id if isinstance(rv, ast.Name) else None

    def ret_stores(self):
        """subscript stores made (on this path) into the local that is returned"""
        return self.stores.get(self.ret_name, []) if self.ret_name else []

    def has(self, atom: str, polarity: bool) -> bool:
        return any(t == atom and p == polarity for t, p, _ in self.guards)

    def mentions(self, atom: str) -> bool:
        return any(t == atom for t, _, _ in self.guards)

    def __repr__(self):
        g = " and ".join(("" if p else "not ") + t for t, p, _ in self.guards) or "always"
        return "<%s -> %s>" % (g, "raise" if self.raised else (unparse(self.value) if self.value is not None else None))


class _Sub(ast.NodeTransformer):
    def __init__(self, env):
        self.env = env

    def visit_Name(self, n):
        if isinstance(n.ctx, ast.Load) and n.id in self.env and self.env[n.id] is not None:
            return clone(self.env[n.id])
        return n

    def visit_Lambda(self, n):
        return n

    def _comp(self, n):
        # do not substitute names bound by the comprehension itself
        bound = {x.id for g in n.generators for x in ast.walk(g.target) if isinstance(x, ast.Name)}
        env = {k: v for k, v in self.env.items() if k not in bound}
        return _Sub(env).generic_visit(n) if env is not self.env else self.generic_visit(n)

    visit_ListComp = visit_GeneratorExp = visit_SetComp = visit_DictComp = _comp


def subst(e: ast.AST, env) -> ast.AST:
    return ast.fix_missing_locations(_Sub(env).visit(clone(e)))


class _State:
    def __init__(self, env=None, stores=None, guards=None, attrs=None):
        self.env: Dict[str, Optional[ast.AST]] = dict(env or {})
        self.stores: Dict[str, list] = {k: list(v) for k, v in (stores or {}).items()}
        self.guards: list = list(guards or [])
        self.attrs: Dict[str, tuple] = dict(attrs or {})

    def fork(self):
        return _State(self.env, self.stores, self.guards, self.attrs)


def cases(func: Func, max_paths: int = MAX_PATHS) -> Optional[List[Case]]:
    out: List[Case] = []
    over = [False]

    def assigned_names(stmts):
        names = set()
        for st in stmts:
            for n in ast.walk(st):
                if isinstance(n, ast.Name) and isinstance(n.ctx, ast.Store):
                    names.add(n.id)
        return names

    def run(stmts, st: _State, cont):
        """execute stmts on state st; cont(state) is called for every path that falls through"""
        if over[0]:
            return
        if not stmts:
            cont(st)
            return
        s, rest = stmts[0], stmts[1:]
        if isinstance(s, ast.Return):
            v = subst(s.value, st.env) if s.value is not None else None
            out.append(Case(st.guards, v, st.stores, False, s, st.attrs))
            if len(out) > max_paths:
                over[0] = True
            return
        if isinstance(s, ast.Raise):
            out.append(Case(st.guards, None, st.stores, True, s, st.attrs))
            return
        if isinstance(s, ast.Assign) and len(s.targets) == 1:
            t = s.targets[0]
            if isinstance(t, ast.Name):
                st.env[t.id] = subst(s.value, st.env)
                st.stores.pop(t.id, None)
            elif isinstance(t, (ast.Tuple, ast.List)) and isinstance(s.value, (ast.Tuple, ast.List)) and len(t.elts) == len(s.value.elts) \
                    and all(isinstance(x, ast.Name) for x in t.elts):
                vals = [subst(v, st.env) for v in s.value.elts]
                for x, v in zip(t.elts, vals):
                    st.env[x.id] = v
            elif isinstance(t, ast.Attribute) and isinstance(t.value, ast.Name):
                st.attrs[unparse(t)] = (subst(s.value, st.env), s)
            elif isinstance(t, ast.Subscript):
                base = t
                while isinstance(base, ast.Subscript):
                    base = base.value
                if isinstance(base, ast.Name):
                    st.stores.setdefault(base.id, []).append((unparse(subst(t.slice, st.env)) if base is t.value else unparse(subst(t, st.env)),
                                                              subst(s.value, st.env), s))
            else:
                for n in ast.walk(t):
                    if isinstance(n, ast.Name) and isinstance(n.ctx, ast.Store):
                        st.env[n.id] = None
            run(rest, st, cont)
            return
        if isinstance(s, ast.AnnAssign) and isinstance(s.target, ast.Name):
            if s.value is not None:
                st.env[s.target.id] = subst(s.value, st.env)
            run(rest, st, cont)
            return
        if isinstance(s, ast.AugAssign):
            if isinstance(s.target, ast.Name):
                cur = st.env.get(s.target.id)
                cur = cur if cur is not None else ast.Name(id=s.target.id, ctx=ast.Load())
                st.env[s.target.id] = ast.fix_missing_locations(ast.BinOp(left=clone(cur), op=s.op, right=subst(s.value, st.env)))
            elif isinstance(s.target, ast.Subscript) and isinstance(s.target.value, ast.Name):
                st.stores.setdefault(s.target.value.id, []).append(("aug:" + unparse(subst(s.target.slice, st.env)),
                                                                     ast.BinOp(left=clone(s.target), op=s.op, right=subst(s.value, st.env)), s))
            run(rest, st, cont)
            return
        if isinstance(s, ast.If):
            test = subst(s.test, st.env)
            pos, neg = conjuncts(test, True), conjuncts(test, False)

            def branch(body, atoms, positive):
                b = st.fork()
                # a test that is not a conjunction of atoms on this side is kept whole: ("?<text>", taken?, test)
                b.guards = b.guards + (atoms if atoms is not None else [("?" + unparse(test), positive, test)])
                run(list(body), b, lambda s2: run(rest, s2, cont))
            branch(s.body, pos, True)
            branch(s.orelse, neg, False)
            return
        if isinstance(s, (ast.For, ast.While, ast.With, ast.Try)):
            # opaque region: forget what it assigns, keep going (returns inside it are not enumerated)
            for nm in assigned_names([s]):
                st.env[nm] = None
                st.stores.pop(nm, None)
            for n in ast.walk(s):
                if isinstance(n, ast.Attribute) and isinstance(n.ctx, ast.Store):
                    st.attrs[unparse(n)] = (None, s)
            run(rest, st, cont)
            return
        # expression statements, asserts, pass, nested defs ...
        run(rest, st, cont)

    body = list(func.node.body)
    run(body, _State(), lambda st: out.append(Case(st.guards, None, st.stores, False, None, st.attrs)))
    if over[0]:
        return None
    # a conditional expression at the top of a returned value is one more branch
    changed = True
    while changed and len(out) <= max_paths:
        changed = False
        nxt = []
        for c in out:
            v = c.value
            if isinstance(v, ast.IfExp):
                pos, neg = conjuncts(v.test, True), conjuncts(v.test, False)
                for atoms, val, positive in ((pos, v.body, True), (neg, v.orelse, False)):
                    g = c.guards + (atoms if atoms is not None else [("?" + unparse(v.test), positive, v.test)])
                    n = Case(g, val, c.stores, False, c.ret_node, c.attrs)
                    nxt.append(n)
                changed = True
            else:
                nxt.append(c)
        out = nxt
    return out


def returning(cs: List[Case]) -> List[Case]:
    return [c for c in cs if not c.raised and c.ret_node is not None]


# --------------------------------------------------------------------------------------------------
# seeing through small helpers
# --------------------------------------------------------------------------------------------------
class _Expand(ast.NodeTransformer):
    def __init__(self, ctx, func: Func, depth: int):
        self.ctx, self.func, self.depth = ctx, func, depth

    def _target(self, call: ast.Call):
        fn = call.func
        ix = self.ctx.ix
        if isinstance(fn, ast.Name):
            t = ix.scope_lookup(self.func.module, self.func, fn.id)
            return (t, False) if isinstance(t, Func) else (None, False)
        if isinstance(fn, ast.Attribute) and isinstance(fn.value, ast.Name):
            f = self.func
            while f is not None and f.self_name is None:
                f = f.parent
            if f is not None and fn.value.id == f.self_name and f.cls is not None:
                m = f.cls.lookup(fn.attr)
                if isinstance(m, Func) and m.kind in ("method", "static", "classmethod"):
                    return m, m.kind == "method"
        return None, False

    def visit_Call(self, node: ast.Call):
        node = self.generic_visit(node)
        if self.depth <= 0:
            return node
        t, bound = self._target(node)
        if t is None or t is self.func:
            return node
        # only small private helpers: nested functions and leading-underscore functions / methods
        if not (t.parent is not None or (t.name.startswith("_") and not t.name.startswith("__"))):
            return node
        if any(isinstance(a, ast.Starred) for a in node.args) or any(k.arg is None for k in node.keywords):
            return node
        cs = cases(t, max_paths=4)
        if not cs:
            return node
        rc = returning(cs)
        if len(rc) != 1 or len(cs) != len(rc) or rc[0].guards or rc[0].value is None or any(v for v in rc[0].stores.values()):
            return node
        from .resolve import bind_call
        try:
            b, errs = bind_call(node, t, bound)
        except Exception:
            return node
        if errs:
            return node
        env = {p: e for p, e in b.items()}
        # parameters left at their defaults
        a = t.node.args
        pos = a.posonlyargs + a.args
        for p, dv in zip(pos[len(pos) - len(a.defaults):], a.defaults):
            env.setdefault(p.arg, dv)
        body_locals = {n.id for n in ast.walk(t.node) if isinstance(n, ast.Name) and isinstance(n.ctx, ast.Store)}
        if any(p not in env for p in t.params):
            return node
        # the helper must be closed: every free name of the returned expression is a parameter or resolves identically here
        val = subst(rc[0].value, env)
        if t.self_name and bound:
            pass            # `self` inside a method is the same object as in the caller
        out = _Expand(self.ctx, t, self.depth - 1).visit(val)
        return ast.copy_location(out, node)


def expand_calls(ctx, func: Func, expr: ast.AST, depth: int = 2) -> ast.AST:
    """`expr` with calls of small private helpers (nested functions, _private functions / methods whose body is one
    returned expression after local substitution) replaced by that expression applied to the arguments."""
    e = _Expand(ctx, func, depth).visit(clone(expr))
    return ast.fix_missing_locations(e)
