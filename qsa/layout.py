"""O1-O3: dispatch typing, operand order of HS products, loop-nest vs shape agreement."""
from __future__ import annotations

import ast
from typing import Dict, List, Optional, Set, Tuple

from .astutil import unparse
from .defined import Definedness
from .index import Class, Func, dotted, own_nodes, parents


def dispatch_branches(ctx, f: Func, p1: str, p2: str):
    """[(Class1, Class2, if-node)] for `if type(p1) == A and type(p2) == B` chains in f."""
    out = []
    for n in own_nodes(f.node):
        if not isinstance(n, ast.If):
            continue
        t = n.test
        if isinstance(t, ast.BoolOp) and isinstance(t.op, ast.And) and len(t.values) == 2:
            g1 = ctx.res._guard_of_test(f, t, p1, True)
            g2 = ctx.res._guard_of_test(f, t.values[1], p2, True) or ctx.res._guard_of_test(f, t.values[0], p2, True)
            g1 = ctx.res._guard_of_test(f, t.values[0], p1, True) or ctx.res._guard_of_test(f, t.values[1], p1, True)
            if g1 and g2 and len(g1) == 1 and len(g2) == 1:
                out.append((next(iter(g1)), next(iter(g2)), n))
        elif isinstance(t, ast.Compare) and len(t.ops) == 1 and isinstance(t.ops[0], ast.Eq) and isinstance(t.comparators[0], ast.Tuple) \
                and len(t.comparators[0].elts) == 2:
            # (type(p1), type(p2)) == (A, B), the pair possibly held in a local
            from .astutil import deep_inline
            left = deep_inline(f, t.left)
            if isinstance(left, ast.Tuple) and len(left.elts) == 2 and [unparse(x) for x in left.elts] == ["type(%s)" % p1, "type(%s)" % p2]:
                cls = [ctx.ix.resolve_expr(f.module, x, f) for x in t.comparators[0].elts]
                from .index import Class as _Class
                if all(isinstance(c, _Class) for c in cls):
                    out.append((cls[0], cls[1], n))
    return out


def helper_calls(ctx, f: Func, branch: ast.If, p1: str, p2: str) -> List[Tuple[Func, ast.Call]]:
    """module-level helper functions called as helper(p1, p2, ...) inside the branch body"""
    out = []
    for s in branch.body:
        for n in ast.walk(s):
            if isinstance(n, ast.Call) and isinstance(n.func, ast.Name) and len(n.args) >= 2 \
                    and unparse(n.args[0]) == p1 and unparse(n.args[1]) == p2:
                t = ctx.ix.scope_lookup(f.module, f, n.func.id)
                if isinstance(t, Func):
                    out.append((t, n))
    return out


def typed_attribute_problems(ctx, f: Func, types: Dict[str, Class], body: Optional[List[ast.stmt]] = None):
    """attribute reads on the typed names that the class does not have / method-vs-value misuse"""
    d = Definedness(ctx.res)
    probs = []
    nodes = [n for s in body for n in ast.walk(s)] if body is not None else list(own_nodes(f.node))
    for n in nodes:
        if isinstance(n, ast.Attribute) and isinstance(n.ctx, ast.Load) and isinstance(n.value, ast.Name) and n.value.id in types:
            c = types[n.value.id]
            if not any(d.has_member(k, n.attr) for k in [c] + c.all_subclasses()):
                probs.append((n, "%s (a %s here) has no attribute '%s'" % (n.value.id, c.name, n.attr)))
                continue
            m = c.lookup(n.attr)
            par = getattr(n, "_parent", None)
            if m is not None and m.kind == "method":
                used_as_value = isinstance(par, (ast.BinOp, ast.For, ast.comprehension, ast.Subscript)) or \
                    (isinstance(par, ast.Call) and n in par.args)
                if used_as_value:
                    probs.append((n, "'%s' is a method of %s; here it is used as a value" % (n.attr, c.name)))
            if m is not None and m.kind == "property" and isinstance(par, ast.Call) and par.func is n:
                probs.append((n, "'%s' is a property of %s; here it is called" % (n.attr, c.name)))
    return probs


def owner_of(e: ast.AST, owners: Dict[str, int]) -> Set[int]:
    return {owners[n.id] for n in ast.walk(e) if isinstance(n, ast.Name) and n.id in owners}


def hs_loopvars(nodes, p1: str, p2: str) -> Dict[str, Tuple[int, str]]:
    """loop / comprehension variables ranging over an operand's list attribute: var -> (owner, attr)"""
    out = {}
    for n in nodes:
        if isinstance(n, (ast.For, ast.comprehension)) and isinstance(n.target, ast.Name):
            it = n.iter
            if isinstance(it, ast.Attribute) and isinstance(it.value, ast.Name) and it.value.id in (p1, p2):
                out[n.target.id] = (1 if it.value.id == p1 else 2, it.attr)
        if isinstance(n, (ast.For, ast.comprehension)) and isinstance(n.target, ast.Tuple) and isinstance(n.iter, ast.Call) \
                and dotted(n.iter.func) == "enumerate" and n.iter.args:
            it = n.iter.args[0]
            if isinstance(it, ast.Attribute) and isinstance(it.value, ast.Name) and it.value.id in (p1, p2) and len(n.target.elts) == 2 \
                    and isinstance(n.target.elts[1], ast.Name):
                out[n.target.elts[1].id] = (1 if it.value.id == p1 else 2, it.attr)
    return out


def matmul_sites(nodes, p1: str, p2: str):
    """(node, left (owner, kind), right (owner, kind)) for every `@` whose operands come from the two operands.
    kind: 'hs' (HS matrix), 'hsT', 'vec', 'vec*' (conjugated vector)"""
    lv = hs_loopvars(nodes, p1, p2)

    def classify(e):
        tr = False
        conj = False
        while True:
            if isinstance(e, ast.Attribute) and e.attr == "T":
                e, tr = e.value, not tr
            elif isinstance(e, ast.Call) and isinstance(e.func, ast.Attribute) and e.func.attr in ("conjugate", "conj") and not e.args:
                e, conj = e.func.value, not conj
            else:
                break
        if isinstance(e, ast.Attribute) and isinstance(e.value, ast.Name) and e.value.id in (p1, p2):
            o = 1 if e.value.id == p1 else 2
            if e.attr == "hs":
                return (o, "hsT" if tr else "hs")
            if e.attr == "vec":
                return (o, "vec")
        if isinstance(e, ast.Name) and e.id in lv:
            o, attr = lv[e.id]
            if attr == "hss":
                return (o, "hsT" if tr else "hs")
            if attr in ("vecs",):
                return (o, "vec")
        return None

    out = []
    for n in nodes:
        if isinstance(n, ast.BinOp) and isinstance(n.op, ast.MatMult):
            l, r = classify(n.left), classify(n.right)
            if l and r and l[0] != r[0]:
                out.append((n, l, r))
    return out


def layout_sites(f: Func, p1: str, p2: str):
    """Loop nests (or itertools.product) that fill a flat list with one element per outcome pair, and the
    shape concatenations that label them.  Returns (fills, shapes):
      fills:  [(node, outer owner, inner owner)]
      shapes: [(node, first owner, second owner)]"""
    fills, shapes = [], []
    nodes = list(own_nodes(f.node))
    for n in nodes:
        if isinstance(n, ast.For):
            o1 = owner_of(n.iter, {p1: 1, p2: 2})
            for s in n.body:
                if isinstance(s, ast.For):
                    o2 = owner_of(s.iter, {p1: 1, p2: 2})
                    has_append = any(isinstance(c, ast.Call) and isinstance(c.func, ast.Attribute) and c.func.attr in ("append", "extend")
                                     for b in s.body for c in ast.walk(b))
                    if len(o1) == 1 and len(o2) == 1 and o1 != o2 and has_append:
                        fills.append((n, next(iter(o1)), next(iter(o2))))
        if isinstance(n, ast.comprehension) and isinstance(n.iter, ast.Call) and (dotted(n.iter.func) or "").split(".")[-1] == "product" \
                and len(n.iter.args) == 2:
            o1 = owner_of(n.iter.args[0], {p1: 1, p2: 2})
            o2 = owner_of(n.iter.args[1], {p1: 1, p2: 2})
            if len(o1) == 1 and len(o2) == 1 and o1 != o2:
                fills.append((n, next(iter(o1)), next(iter(o2))))
        if isinstance(n, (ast.ListComp, ast.GeneratorExp)) and len(n.generators) == 2 and not any(g.ifs for g in n.generators):
            # [f(a, b) for a in <outer> for b in <inner>]
            o1 = owner_of(n.generators[0].iter, {p1: 1, p2: 2})
            o2 = owner_of(n.generators[1].iter, {p1: 1, p2: 2})
            if len(o1) == 1 and len(o2) == 1 and o1 != o2:
                fills.append((n, next(iter(o1)), next(iter(o2))))
        if isinstance(n, ast.For) and not any(isinstance(s, ast.For) for s in n.body):
            # for a in <outer>: L.extend([f(a, b) for b in <inner>])  /  L += [...]
            o1 = owner_of(n.iter, {p1: 1, p2: 2})
            for s in n.body:
                for c in ast.walk(s):
                    if isinstance(c, (ast.ListComp, ast.GeneratorExp)) and len(c.generators) == 1 and not c.generators[0].ifs:
                        par = getattr(c, "_parent", None)
                        grow = (isinstance(par, ast.Call) and isinstance(par.func, ast.Attribute) and par.func.attr == "extend") or \
                            (isinstance(par, ast.AugAssign) and isinstance(par.op, ast.Add))
                        o2 = owner_of(c.generators[0].iter, {p1: 1, p2: 2})
                        if grow and len(o1) == 1 and len(o2) == 1 and o1 != o2:
                            fills.append((n, next(iter(o1)), next(iter(o2))))
        # the shape that labels the filled list: <operand A's shape / outcome counts> + <operand B's>, wherever it is written
        # (bound to a local, or handed to the constructor directly)
        if isinstance(n, ast.BinOp) and isinstance(n.op, ast.Add):
            lt, rt = unparse(n.left), unparse(n.right)
            if all(("shape" in t_ or "outcomes" in t_) for t_ in (lt, rt)):
                o1 = owner_of(n.left, {p1: 1, p2: 2})
                o2 = owner_of(n.right, {p1: 1, p2: 2})
                if len(o1) == 1 and len(o2) == 1 and o1 != o2:
                    shapes.append((n, next(iter(o1)), next(iter(o2))))
    # copy + extend idiom: x = copy(p1.nums); x.extend(p2.nums)
    for n in nodes:
        if isinstance(n, ast.Call) and isinstance(n.func, ast.Attribute) and n.func.attr == "extend" and isinstance(n.func.value, ast.Name) \
                and "outcomes" in n.func.value.id and n.args:
            base = None
            for a in nodes:
                if isinstance(a, ast.Assign) and unparse(a.targets[0]) == n.func.value.id:
                    base = a.value
            if base is not None:
                o1 = owner_of(base, {p1: 1, p2: 2})
                o2 = owner_of(n.args[0], {p1: 1, p2: 2})
                if len(o1) == 1 and len(o2) == 1 and o1 != o2:
                    shapes.append((n, next(iter(o1)), next(iter(o2))))
    return fills, shapes


def check_fill_vs_shape(ctx, rep, rule: str, qualnames):
    """For each helper: the operand whose outcomes are the slow index of the filled list must be the one the
    reported shape lists first.  Returns [(func, node, outer owner)]."""
    orders = []
    for q in qualnames:
        h = ctx.ix.func(q)
        a, b = h.params[0], h.params[1]
        fills, shapes = layout_sites(h, a, b)
        # a single loop over the ensemble's states that extends per-outcome lists is ensemble-major by construction
        if h.name.endswith("_StateEnsemble") and h.name.startswith("_compose"):
            loops = [n for n in own_nodes(h.node) if isinstance(n, ast.For) and ("%s.states" % b) in unparse(n.iter)]
            if loops and not fills:
                fills = [(loops[0], 2, 1)]
        if not fills or not shapes:
            rep.undecided(rule, h, "layout", "no fill/shape pair found")
            continue
        for node, o_outer, o_inner in fills:
            orders.append((h, node, o_outer))
            for snode, s1, s2 in shapes:
                con = "%s: fill %s-major, shape %s first" % (h.name, "elem%d" % o_outer, "elem%d" % s1)
                rep.check(s1 == o_outer, rule, h, con, "list order and shape agree",
                          "the list is filled with operand %d's outcomes as the slow index, but the shape lists operand %d first: for different "
                          "outcome counts the multi-index labels the wrong elements" % (o_outer, s1), node=snode)
    return orders
