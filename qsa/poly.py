"""E7 - polynomials with rational coefficients over named symbols (sizes, indices)."""
from __future__ import annotations

from fractions import Fraction
from typing import Dict, FrozenSet, Iterable, Optional, Tuple

Mono = Tuple[Tuple[str, Fraction], ...]  # sorted ((symbol, exponent), ...)


def _mono_mul(a: Mono, b: Mono) -> Mono:
    d: Dict[str, Fraction] = dict(a)
    for s, e in b:
        d[s] = d.get(s, Fraction(0)) + e
    return tuple(sorted((s, e) for s, e in d.items() if e != 0))


class Poly:
    __slots__ = ("t",)

    def __init__(self, terms: Optional[Dict[Mono, Fraction]] = None):
        self.t: Dict[Mono, Fraction] = {m: c for m, c in (terms or {}).items() if c != 0}

    # constructors
    @staticmethod
    def const(c) -> "Poly":
        return Poly({(): Fraction(c)})

    @staticmethod
    def sym(name: str, exp=1) -> "Poly":
        return Poly({((name, Fraction(exp)),): Fraction(1)})

    # algebra
    def __add__(self, o):
        o = _lift(o)
        d = dict(self.t)
        for m, c in o.t.items():
            d[m] = d.get(m, Fraction(0)) + c
        return Poly(d)

    __radd__ = __add__

    def __neg__(self):
        return Poly({m: -c for m, c in self.t.items()})

    def __sub__(self, o):
        return self + (-_lift(o))

    def __rsub__(self, o):
        return _lift(o) - self

    def __mul__(self, o):
        o = _lift(o)
        d: Dict[Mono, Fraction] = {}
        for m1, c1 in self.t.items():
            for m2, c2 in o.t.items():
                m = _mono_mul(m1, m2)
                d[m] = d.get(m, Fraction(0)) + c1 * c2
        return Poly(d)

    __rmul__ = __mul__

    def __pow__(self, k):
        if isinstance(k, Poly):
            k = k.as_const()
        if k is None:
            raise ValueError("non-constant exponent")
        k = Fraction(k)
        if len(self.t) == 1:
            (m, c), = self.t.items()
            if k.denominator == 1 or c == 1:
                cc = c ** int(k) if k.denominator == 1 else c
                return Poly({tuple((s, e * k) for s, e in m): Fraction(cc)})
        if k.denominator != 1 or k < 0:
            raise ValueError("unsupported power")
        r = Poly.const(1)
        for _ in range(int(k)):
            r = r * self
        return r

    def div_mono(self, o: "Poly") -> Optional["Poly"]:
        """Exact division by a single-term polynomial, or None."""
        if len(o.t) != 1:
            return None
        (m, c), = o.t.items()
        inv = tuple((s, -e) for s, e in m)
        return self * Poly({inv: 1 / c})

    def __eq__(self, o):
        return isinstance(_lift(o), Poly) and self.t == _lift(o).t

    def __hash__(self):
        return hash(frozenset(self.t.items()))

    def is_zero(self):
        return not self.t

    def as_const(self) -> Optional[Fraction]:
        if not self.t:
            return Fraction(0)
        if len(self.t) == 1 and () in self.t:
            return self.t[()]
        return None

    def symbols(self) -> FrozenSet[str]:
        return frozenset(s for m in self.t for s, _ in m)

    def subst(self, env: Dict[str, "Poly"]) -> "Poly":
        r = Poly()
        for m, c in self.t.items():
            term = Poly.const(c)
            for s, e in m:
                base = env.get(s, Poly.sym(s))
                term = term * (base ** e)
            r = r + term
        return r

    def nonneg_coeffs(self) -> bool:
        return all(c >= 0 for c in self.t.values())

    def __repr__(self):
        if not self.t:
            return "0"
        parts = []
        for m, c in sorted(self.t.items(), key=lambda kv: (-sum(e for _, e in kv[0]), kv[0])):
            ms = "*".join(s if e == 1 else "%s^%s" % (s, e) for s, e in m)
            if not ms:
                parts.append(str(c))
            elif c == 1:
                parts.append(ms)
            elif c == -1:
                parts.append("-" + ms)
            else:
                parts.append("%s*%s" % (c, ms))
        return " + ".join(parts).replace("+ -", "- ")


def _lift(x) -> Poly:
    if isinstance(x, Poly):
        return x
    return Poly.const(x)
