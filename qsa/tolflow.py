"""E5 - tolerance flow: which closeness comparisons a verdict's tolerance parameter reaches,
and with what effective relative tolerance."""
from __future__ import annotations

import ast
from typing import Dict, FrozenSet, List, Optional, Set, Tuple

from .astutil import arg, const, is_num, is_zero_expr, kwarg, NOCONST, unparse
from .index import Class, Func, dotted, own_nodes
from .resolve import Resolver, Unresolved, bind_call

# external closeness predicates: (index of a, b, rtol, atol) and defaults
EXT_CLOSE = {
    "numpy.isclose": dict(a=0, b=1, rtol=2, atol=3, drtol=1e-5, datol=1e-8),
    "numpy.allclose": dict(a=0, b=1, rtol=2, atol=3, drtol=1e-5, datol=1e-8),
}
# repo wrappers treated as primitives (their defaults are read from the source on every run)
REPO_CLOSE = ("quara.utils.matrix_util.isclose", "quara.utils.matrix_util.allclose")


class CloseSite:
    def __init__(self, func: Func, call: ast.Call, chain, pred: str):
        self.func = func
        self.call = call
        self.chain = chain
        self.pred = pred
        self.atol_expr: Optional[ast.AST] = None
        self.rtol_expr: Optional[ast.AST] = None
        self.atol_tainted = False
        self.rtol_default: Optional[float] = None
        self.rtol_zero = False
        self.ref_zero = False
        self.a: Optional[ast.AST] = None
        self.b: Optional[ast.AST] = None
        self.atol_literal = None

    @property
    def rtol_ok(self):
        return self.rtol_zero or self.ref_zero


class TaintUse:
    """A use of the tolerance value other than forwarding it / defaulting it."""

    def __init__(self, func, node, chain, what):
        self.func, self.node, self.chain, self.what = func, node, chain, what


def is_get_atol(e: ast.AST) -> bool:
    return isinstance(e, ast.Call) and (dotted(e.func) or "").endswith("Settings.get_atol")


def defaulting_target(e: ast.AST, tainted: Set[str]) -> bool:
    """`Settings.get_atol() if atol is None else atol` / `atol if atol else Settings.get_atol()`
    (and `atol or Settings.get_atol()`): value is the caller's tolerance or the global one."""
    if isinstance(e, ast.IfExp):
        branches = [e.body, e.orelse]
        names = [b for b in branches if isinstance(b, ast.Name) and b.id in tainted]
        gets = [b for b in branches if is_get_atol(b)]
        if len(names) == 1 and len(gets) == 1:
            t = e.test
            nm = names[0].id
            # test must be on the same name: `x is None`, `x is not None`, `x`, `not x`
            tn = {n.id for n in ast.walk(t) if isinstance(n, ast.Name)}
            if tn == {nm}:
                # polarity: the get_atol branch must be the one taken when the name is None/falsy
                none_branch_is_body = None
                if isinstance(t, ast.Compare) and len(t.ops) == 1 and const(t.comparators[0]) is None:
                    if isinstance(t.ops[0], (ast.Is, ast.Eq)):
                        none_branch_is_body = True
                    elif isinstance(t.ops[0], (ast.IsNot, ast.NotEq)):
                        none_branch_is_body = False
                elif isinstance(t, ast.Name):
                    none_branch_is_body = False
                elif isinstance(t, ast.UnaryOp) and isinstance(t.op, ast.Not) and isinstance(t.operand, ast.Name):
                    none_branch_is_body = True
                if none_branch_is_body is None:
                    return False
                none_branch = e.body if none_branch_is_body else e.orelse
                return is_get_atol(none_branch)
        return False
    if isinstance(e, ast.BoolOp) and isinstance(e.op, ast.Or) and len(e.values) == 2:
        a, b = e.values
        return isinstance(a, ast.Name) and a.id in tainted and is_get_atol(b)
    return False


def statement_default(func, assign: ast.Assign, name: str) -> bool:
    """`if atol is None: atol = Settings.get_atol()` - the statement spelling of the defaulting expression: the
    assignment is the whole body of an `if` without else whose test is `name is None` / `not name`."""
    if not is_get_atol(assign.value):
        return False
    for n in own_nodes(func.node):
        if isinstance(n, ast.If) and not n.orelse and len(n.body) == 1 and n.body[0] is assign:
            t = n.test
            if isinstance(t, ast.Compare) and len(t.ops) == 1 and isinstance(t.ops[0], (ast.Is, ast.Eq)) \
                    and isinstance(t.left, ast.Name) and t.left.id == name and const(t.comparators[0]) is None \
                    and isinstance(t.comparators[0], ast.Constant):
                return True
            if isinstance(t, ast.UnaryOp) and isinstance(t.op, ast.Not) and isinstance(t.operand, ast.Name) and t.operand.id == name:
                return True
    return False


class TolFlow:
    def __init__(self, res: Resolver):
        self.res = res
        self.ix = res.ix
        self.sites: List[CloseSite] = []
        self.uses: List[TaintUse] = []
        self.visited: Dict[Tuple[str, FrozenSet[str]], bool] = {}
        self.unresolved: List[Tuple[Func, str]] = []
        self.funcs_seen: Set[str] = set()
        self._cur_func = None
        self.repo_close_defaults = {}
        for qn in REPO_CLOSE:
            f = self.ix.funcs.get(qn)
            if f is not None:
                d = {k: const(v) for k, v in f.param_defaults().items()}
                pos = [p.arg for p in f.node.args.args]
                self.repo_close_defaults[qn] = dict(
                    a=pos.index("a"), b=pos.index("b"), rtol=pos.index("rtol"), atol=pos.index("atol"),
                    drtol=d.get("rtol"), datol=d.get("atol"))

    def tainted_expr(self, e: ast.AST, tainted: Set[str], func: Optional[Func] = None) -> bool:
        if isinstance(e, ast.Name):
            return e.id in tainted
        if defaulting_target(e, tainted):
            return True
        # `_atol_or_default(atol)`: a private helper that only hands back the caller's tolerance or the global default
        if func is not None and isinstance(e, ast.Call) and not e.keywords and len(e.args) == 1 and isinstance(e.args[0], ast.Name) \
                and e.args[0].id in tainted:
            for t in self.res.resolve_call(func, e, self.res.env(func), by_name=False):
                if isinstance(t, Func) and self.is_default_helper(t):
                    return True
        return False

    def is_default_helper(self, t: Func) -> bool:
        """every return of t is its (single) parameter, Settings.get_atol(), or the defaulting expression over the parameter"""
        ps = [p for p in t.params if p != t.self_name]
        if len(ps) != 1:
            return False
        rets = [r for r in own_nodes(t.node) if isinstance(r, ast.Return)]
        if not rets:
            return False
        for r in rets:
            v = r.value
            if v is None or not ((isinstance(v, ast.Name) and v.id == ps[0]) or is_get_atol(v) or defaulting_target(v, {ps[0]})):
                return False
        for n in own_nodes(t.node):
            if isinstance(n, (ast.Assign, ast.AugAssign, ast.AnnAssign)):
                tg = n.targets if isinstance(n, ast.Assign) else [n.target]
                if any(isinstance(x, ast.Name) and x.id == ps[0] for x in tg) and not (isinstance(n, ast.Assign) and statement_default(t, n, ps[0])):
                    return False
        return True

    def local_taint(self, func: Func, params: Set[str]) -> Set[str]:
        tainted = set(params)
        changed = True
        while changed:
            changed = False
            for n in own_nodes(func.node):
                if isinstance(n, ast.Assign) and len(n.targets) == 1 and isinstance(n.targets[0], ast.Name):
                    if self.tainted_expr(n.value, tainted, func) and n.targets[0].id not in tainted:
                        tainted.add(n.targets[0].id)
                        changed = True
        # a tainted name that is ever re-bound to something else loses its meaning
        for n in own_nodes(func.node):
            if isinstance(n, ast.Assign):
                for t in n.targets:
                    if isinstance(t, ast.Name) and t.id in tainted and not self.tainted_expr(n.value, tainted, func):
                        if statement_default(func, n, t.id):
                            continue
                        self.uses.append(TaintUse(func, n, (), "tolerance variable '%s' re-bound to %s" % (t.id, unparse(n.value))))
            elif isinstance(n, ast.AugAssign) and isinstance(n.target, ast.Name) and n.target.id in tainted:
                self.uses.append(TaintUse(func, n, (), "tolerance variable '%s' modified in place" % n.target.id))
        return tainted

    def close_spec(self, target) -> Optional[Tuple[str, dict]]:
        if isinstance(target, str) and target in EXT_CLOSE:
            return target, EXT_CLOSE[target]
        if isinstance(target, Func) and target.qualname in self.repo_close_defaults:
            return target.qualname, self.repo_close_defaults[target.qualname]
        return None

    def analyse(self, func: Func, params: Set[str], chain=(), depth=0):
        key = (func.qualname, frozenset(params))
        if key in self.visited or depth > 10:
            return
        self.visited[key] = True
        self.funcs_seen.add(func.qualname)
        chain = chain + (func.qualname,)
        tainted = self.local_taint(func, params)
        self._cur_func = func
        accounted: Set[int] = set()  # ids of Name nodes whose use is a recognised forwarding
        env = self.res.env(func)
        for n in own_nodes(func.node):
            if not isinstance(n, ast.Call):
                continue
            targets = self.res.resolve_call(func, n, env, by_name=False)
            spec = None
            for t in targets:
                spec = spec or self.close_spec(t)
            if spec is not None:
                name, sp = spec
                s = CloseSite(func, n, chain, name)
                s.a, s.b = arg(n, sp["a"], "a"), arg(n, sp["b"], "b")
                s.atol_expr = arg(n, sp["atol"], "atol")
                s.rtol_expr = arg(n, sp["rtol"], "rtol")
                if s.atol_expr is not None:
                    s.atol_tainted = self.tainted_expr(s.atol_expr, tainted)
                    c = const(s.atol_expr)
                    if c is not NOCONST:
                        s.atol_literal = c
                    for nm in ast.walk(s.atol_expr):
                        accounted.add(id(nm))
                else:
                    s.atol_literal = sp["datol"]
                if s.rtol_expr is not None:
                    s.rtol_zero = is_num(s.rtol_expr, 0)
                else:
                    s.rtol_default = sp["drtol"]
                    s.rtol_zero = (sp["drtol"] == 0)
                s.ref_zero = s.b is not None and is_zero_expr(s.b)
                self.sites.append(s)
                continue
            for t in targets:
                if isinstance(t, Class):
                    t = t.lookup("__init__")
                    if t is None:
                        continue
                    bound = True
                elif isinstance(t, Func):
                    bound = self._is_bound(func, n, t)
                elif isinstance(t, Unresolved):
                    self.unresolved.append((func, t.text))
                    continue
                else:
                    continue
                binding, _ = bind_call(n, t, bound)
                sub = set()
                for p, e in binding.items():
                    if self.tainted_expr(e, tainted):
                        sub.add(p)
                        for nm in ast.walk(e):
                            accounted.add(id(nm))
                self.analyse(t, sub, chain, depth + 1)
        for _, m in self.res.property_reads(func):
            self.analyse(m, set(), chain, depth + 1)
        # remaining uses of tainted names
        self._cur_func = func
        for n in own_nodes(func.node):
            if isinstance(n, ast.Name) and isinstance(n.ctx, ast.Load) and n.id in tainted and id(n) not in accounted:
                p = getattr(n, "_parent", None)
                # defaulting idiom / None tests / plain copies are fine
                if self._benign_use(n, tainted):
                    continue
                self.uses.append(TaintUse(func, p if p is not None else n, chain,
                                          "tolerance '%s' used in %s" % (n.id, unparse(p) if p is not None else n.id)))

    def _benign_use(self, n: ast.Name, tainted: Set[str]) -> bool:
        p = getattr(n, "_parent", None)
        while isinstance(p, (ast.IfExp, ast.BoolOp, ast.UnaryOp)):
            if defaulting_target(p, tainted):
                return True
            p = getattr(p, "_parent", None)
        p = getattr(n, "_parent", None)
        if isinstance(p, ast.Compare) and len(p.ops) == 1 and isinstance(p.ops[0], (ast.Is, ast.IsNot, ast.Eq, ast.NotEq)) \
                and const(p.comparators[0]) is None and p.left is n:
            return True
        if isinstance(p, ast.Assign) and p.value is n:
            return True
        if isinstance(p, ast.Return) and p.value is n and self._cur_func is not None and self.is_default_helper(self._cur_func):
            return True
        if isinstance(p, (ast.JoinedStr, ast.FormattedValue)):
            return True
        return False

    def _is_bound(self, func: Func, call: ast.Call, target: Func) -> bool:
        if target.kind not in ("method", "property", "setter", "classmethod"):
            return False
        fn = call.func
        if isinstance(fn, ast.Attribute):
            t = self.ix.resolve_expr(func.module, fn.value, func)
            if isinstance(t, Class) and not (isinstance(fn.value, ast.Name) and fn.value.id == func.self_name):
                return target.kind == "classmethod"
            return True
        return False
