#!/usr/bin/env python3
"""dev tool: evaluate patches against scratch copies of /repo (never touches /repo), several at a time.
usage: patch_eval.py [--expect silent|fire] [--props C01,C02] <patch> ...
Prints one line per patch; details for every check that exits non-zero."""
import json, os, shutil, subprocess, sys, tempfile
from concurrent.futures import ThreadPoolExecutor
HERE = os.path.dirname(os.path.dirname(os.path.abspath(__file__)))
args = sys.argv[1:]
expect, props = None, None
while args and args[0].startswith("--"):
    if args[0] == "--expect":
        expect = args[1]; args = args[2:]
    elif args[0] == "--props":
        props = args[1].split(","); args = args[2:]
    else:
        sys.exit("unknown option " + args[0])
props = props or [c["property_id"] for c in json.load(open(os.path.join(HERE, "MANIFEST.json")))["checks"]]


def one(patch):
    d = tempfile.mkdtemp(prefix="qsa_pe_")
    try:
        shutil.copytree("/repo/quara", os.path.join(d, "quara"))
        r = subprocess.run(["git", "apply", os.path.abspath(patch)], cwd=d, capture_output=True, text=True)
        if r.returncode != 0:
            return patch, None, ["patch does not apply: " + r.stderr.strip()[:200]]
        res = []
        for p in props:
            q = subprocess.run([os.path.join(HERE, "check"), p, "--no-write", "--repo", d], capture_output=True, text=True, cwd=HERE)
            if q.returncode != 0:
                lines = [l for l in q.stdout.splitlines() if l.startswith(("  quara", "      why", "ANALYSIS-ERROR"))]
                res.append((p, q.returncode, lines))
        return patch, res, []
    finally:
        shutil.rmtree(d, ignore_errors=True)


with ThreadPoolExecutor(8) as ex:
    for patch, res, err in ex.map(one, args):
        if err:
            print("%s: ERROR %s" % (patch, err[0]))
            continue
        fired = [p for p, c, _ in res if c == 1]
        errs = [p for p, c, _ in res if c == 2]
        print("%s: fired=%s analysis-error=%s" % (patch, fired, errs))
        if expect == "silent" or expect is None:
            for p, c, lines in res:
                for l in lines[:6]:
                    print("     [%s] %s" % (p, l.strip()[:300]))
