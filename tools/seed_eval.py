#!/usr/bin/env python3
"""dev tool: apply a seeded change to /repo, run every check (no evidence written), undo it.
usage: seed_eval.py <patch.diff> [PROP ...]      (PROP list defaults to all claimed properties)"""
import json, os, subprocess, sys
HERE = os.path.dirname(os.path.dirname(os.path.abspath(__file__)))
patch = os.path.abspath(sys.argv[1])
props = sys.argv[2:] or [c["property_id"] for c in json.load(open(os.path.join(HERE, "MANIFEST.json")))["checks"]]
st = subprocess.run(["git", "-C", "/repo", "status", "--porcelain", "--untracked-files=no"], capture_output=True, text=True).stdout.strip()
if st:
    sys.exit("refusing: /repo has uncommitted changes:\n" + st)
r = subprocess.run(["git", "-C", "/repo", "apply", patch], capture_output=True, text=True)
if r.returncode != 0:
    sys.exit("patch does not apply: " + r.stderr)
try:
    from concurrent.futures import ThreadPoolExecutor
    def run(p):
        q = subprocess.run([os.path.join(HERE, "check"), p, "--no-write"], capture_output=True, text=True, cwd=HERE)
        lines = [l for l in q.stdout.splitlines() if l.startswith(("  quara", "      why", "ANALYSIS-ERROR"))]
        return p, q.returncode, lines
    with ThreadPoolExecutor(8) as ex:
        res = list(ex.map(run, props))
    for p, code, lines in res:
        if code != 0:
            print("== %s exit %d" % (p, code))
            for l in lines[:8]:
                print("   " + l[:260])
    print("fired:", [p for p, c, _ in res if c == 1], " analysis-error:", [p for p, c, _ in res if c == 2])
finally:
    subprocess.run(["git", "-C", "/repo", "checkout", "--", "."], check=True)
