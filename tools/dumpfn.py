#!/usr/bin/env python3
"""dev helper: print function bodies without docstrings.  usage: dumpfn.py file.py name [name...]"""
import ast, sys
def show(path, names):
    src = open(path).read(); t = ast.parse(src)
    for n in ast.walk(t):
        if isinstance(n, (ast.FunctionDef, ast.ClassDef)) and (n.name in names or '*' in names):
            if isinstance(n, ast.ClassDef):
                print(f"=== {path}:{n.lineno} class {n.name}({', '.join(ast.unparse(b) for b in n.bases)})"); continue
            body = n.body
            if isinstance(body[0], ast.Expr) and isinstance(body[0].value, ast.Constant): body = body[1:]
            decos = ''.join('@'+ast.unparse(d)+' ' for d in n.decorator_list)
            print(f"--- {path}:{n.lineno} {decos}def {n.name}({ast.unparse(n.args)})")
            for s in body: print("    " + ast.unparse(s).replace("\n", "\n    "))
show(sys.argv[1], set(sys.argv[2:]))
