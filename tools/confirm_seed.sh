#!/bin/sh
# usage: confirm_seed.sh Cxx   (worktree /tmp/wt/Cxx with patch.diff and demo.py; the patch is currently applied)
# confirms: pinned suite passes with the change; demo fails with it and passes without it.  Development tool:
# it runs quara (in a scratch worktree), so it is not part of any registered check.
id=$1; base=${2:-/tmp/wt}; wt=$base/$id
cd $wt || exit 2
git apply -R --check patch.diff 2>/dev/null || git apply patch.diff   # make sure it is applied
echo "== $id pinned suite with the change"
/venv/bin/python -m pytest -q -p no:cacheprovider --timeout=900 --continue-on-collection-errors 2>&1 | tail -1
echo "== $id demo with the change"
PYTHONPATH=/tmp/rd/site:$wt timeout 900 /venv/bin/python demo.py > /tmp/rd/demo_$(basename $base)_$id.with.txt 2>&1; echo "exit=$?"; tail -2 /tmp/rd/demo_$(basename $base)_$id.with.txt | cut -c1-200
git apply -R patch.diff
echo "== $id demo without the change"
PYTHONPATH=/tmp/rd/site:$wt timeout 900 /venv/bin/python demo.py > /tmp/rd/demo_$(basename $base)_$id.without.txt 2>&1; echo "exit=$?"; tail -2 /tmp/rd/demo_$(basename $base)_$id.without.txt | cut -c1-200
git apply patch.diff
