#!/bin/sh
# dev tool: run every check against each behaviour-preserving patch; any output line is a false alarm to triage
# usage: neutral_eval.sh <patch> [<patch> ...]
for p in "$@"; do
  out=$(python3-vt /verif/tools/seed_eval.py "$p" 2>&1)
  last=$(printf '%s\n' "$out" | tail -1)
  case "$last" in
    "fired: []  analysis-error: []") ;;
    *) echo "#### $p"; printf '%s\n' "$out" | cut -c1-420 ;;
  esac
done
