#!/usr/bin/env python3
"""dev tool: apply a patch to a scratch copy, normalise it, print one function of the normal form (and keep the dirs if --keep).
usage: norm_show.py <patch|-> <relative file> <function name> [--keep]"""
import ast, os, shutil, subprocess, sys, tempfile
HERE = os.path.dirname(os.path.dirname(os.path.abspath(__file__)))
sys.path.insert(0, HERE)
from qsa.normalize import anchors_from_rules, normalise_repo
patch, rel, fn = sys.argv[1:4]
keep = "--keep" in sys.argv
d = tempfile.mkdtemp(prefix="qsa_ns_")
src, dst = os.path.join(d, "src"), os.path.join(d, "dst")
os.makedirs(src)
shutil.copytree("/repo/quara", os.path.join(src, "quara"))
if patch != "-":
    subprocess.run(["git", "apply", os.path.abspath(patch)], cwd=src, check=True)
os.makedirs(dst)
print(normalise_repo(src, dst, anchors_from_rules(HERE)))
t = ast.parse(open(os.path.join(dst, rel)).read())
for n in ast.walk(t):
    if isinstance(n, (ast.FunctionDef, ast.ClassDef)) and n.name == fn:
        print(ast.unparse(n))
if keep:
    print("kept", d)
else:
    shutil.rmtree(d)
