#!/usr/bin/env python3
"""dev tool: metamorphic test of the checkers.  For every function a property's rules put a non-trivial obligation on, apply a
mechanical BEHAVIOUR-PRESERVING transformation to that function only and re-run the property's check on a scratch copy:
the verdicts must not change (no new violation, same exit code).

operators
  unparse   the whole file is re-emitted by ast.unparse (formatting, comments and line numbers change, nothing else)
  rename    every local variable of the function gets the suffix `_rn` (parameters, globals, imports are left alone)
  negif     every `if c: A else: B` (with an else branch, not elif chains) becomes `if not c: B else: A`
  retvar    every `return <expr>` (expr not a bare name / constant) becomes `ret__ = <expr>; return ret__`
  tmpvar    the value of every plain `name = <call or binop>` assignment is first bound to a temporary and then copied

usage: metamorph.py [--ops rename,negif] [--props C05,C10] [--jobs 16] [--limit N]
Never touches /repo: scratch copies under a fresh temporary directory, removed afterwards.
"""
import ast, copy, json, os, shutil, subprocess, sys, tempfile
from concurrent.futures import ThreadPoolExecutor
HERE = os.path.dirname(os.path.dirname(os.path.abspath(__file__)))
sys.path.insert(0, HERE)
REPO = "/repo"


# ------------------------------------------------------------------------------------------------ operators
def _own_nodes(fn):
    """nodes of fn's body excluding nested function / class bodies (but including lambdas and comprehensions)"""
    todo = list(fn.body)
    while todo:
        n = todo.pop()
        yield n
        for c in ast.iter_child_nodes(n):
            if isinstance(c, (ast.FunctionDef, ast.AsyncFunctionDef, ast.ClassDef)):
                yield c
                continue
            todo.append(c)


def op_rename(fn):
    params = {a.arg for a in fn.args.posonlyargs + fn.args.args + fn.args.kwonlyargs}
    if fn.args.vararg:
        params.add(fn.args.vararg.arg)
    if fn.args.kwarg:
        params.add(fn.args.kwarg.arg)
    stores, blocked = set(), set()
    for n in _own_nodes(fn):
        if isinstance(n, ast.Name) and isinstance(n.ctx, (ast.Store, ast.Del)):
            stores.add(n.id)
        elif isinstance(n, (ast.Global, ast.Nonlocal)):
            blocked |= set(n.names)
        elif isinstance(n, (ast.Import, ast.ImportFrom)):
            for a in n.names:
                blocked.add((a.asname or a.name).split(".")[0])
        elif isinstance(n, ast.ExceptHandler) and n.name:
            blocked.add(n.name)
        elif isinstance(n, (ast.FunctionDef, ast.AsyncFunctionDef, ast.ClassDef)):
            blocked.add(n.name)
    # names bound again inside nested scopes (nested defs, lambdas) are left alone
    for n in ast.walk(fn):
        if n is fn:
            continue
        if isinstance(n, (ast.FunctionDef, ast.AsyncFunctionDef, ast.Lambda)):
            a = n.args
            for x in a.posonlyargs + a.args + a.kwonlyargs:
                blocked.add(x.arg)
            if a.vararg:
                blocked.add(a.vararg.arg)
            if a.kwarg:
                blocked.add(a.kwarg.arg)
            if not isinstance(n, ast.Lambda):
                for m in ast.walk(n):
                    if isinstance(m, ast.Name) and isinstance(m.ctx, ast.Store):
                        blocked.add(m.id)
                    if isinstance(m, (ast.Global, ast.Nonlocal)):
                        blocked |= set(m.names)
    names = {x for x in stores if x not in params and x not in blocked and not x.startswith("__")}
    if not names:
        return False
    for n in ast.walk(fn):
        if isinstance(n, ast.Name) and n.id in names:
            n.id = n.id + "_rn"
    return True


def op_negif(fn):
    changed = False
    for n in _own_nodes(fn):
        if isinstance(n, ast.If) and n.orelse and not (len(n.orelse) == 1 and isinstance(n.orelse[0], ast.If)):
            t = n.test
            n.test = t.operand if isinstance(t, ast.UnaryOp) and isinstance(t.op, ast.Not) else ast.UnaryOp(op=ast.Not(), operand=t)
            n.body, n.orelse = n.orelse, n.body
            changed = True
    return changed


def _blocks(fn):
    for n in [fn] + [x for x in _own_nodes(fn)]:
        for field in ("body", "orelse", "finalbody"):
            blk = getattr(n, field, None)
            if isinstance(blk, list) and blk and isinstance(blk[0], ast.stmt) and not (n is not fn and isinstance(n, (ast.FunctionDef, ast.AsyncFunctionDef, ast.ClassDef))):
                yield blk
        if isinstance(n, ast.Try):
            for h in n.handlers:
                yield h.body


def op_retvar(fn):
    changed = False
    for blk in _blocks(fn):
        i = 0
        while i < len(blk):
            s = blk[i]
            if isinstance(s, ast.Return) and s.value is not None and not isinstance(s.value, (ast.Name, ast.Constant)):
                a = ast.Assign(targets=[ast.Name(id="ret__", ctx=ast.Store())], value=s.value)
                s.value = ast.Name(id="ret__", ctx=ast.Load())
                blk.insert(i, a)
                i += 1
                changed = True
            i += 1
    return changed


def op_tmpvar(fn):
    changed = False
    k = 0
    for blk in _blocks(fn):
        i = 0
        while i < len(blk):
            s = blk[i]
            if isinstance(s, ast.Assign) and len(s.targets) == 1 and isinstance(s.targets[0], ast.Name) and isinstance(s.value, (ast.Call, ast.BinOp)) \
                    and not any(isinstance(x, ast.Name) and x.id == s.targets[0].id for x in ast.walk(s.value)):
                k += 1
                tmp = "tmp__%d" % k
                a = ast.Assign(targets=[ast.Name(id=tmp, ctx=ast.Store())], value=s.value)
                s.value = ast.Name(id=tmp, ctx=ast.Load())
                blk.insert(i, a)
                i += 1
                changed = True
            i += 1
    return changed


def _ends(body):
    return bool(body) and isinstance(body[-1], (ast.Return, ast.Raise, ast.Continue, ast.Break))


def op_elseify(fn):
    """`if c: ...; return` followed by the rest of the block -> the rest becomes the else branch"""
    changed = False
    for blk in _blocks(fn):
        for i, s in enumerate(blk):
            if isinstance(s, ast.If) and not s.orelse and _ends(s.body) and i + 1 < len(blk):
                rest = blk[i + 1:]
                if any(isinstance(x, (ast.FunctionDef, ast.AsyncFunctionDef, ast.ClassDef)) for x in rest):
                    continue
                s.orelse = rest
                del blk[i + 1:]
                changed = True
                break
    return changed


def op_unelse(fn):
    """`if c: ...; return  else: rest` -> `if c: ...; return` + rest"""
    changed = False
    for blk in _blocks(fn):
        i = 0
        while i < len(blk):
            s = blk[i]
            if isinstance(s, ast.If) and s.orelse and _ends(s.body) and not (len(s.orelse) == 1 and isinstance(s.orelse[0], ast.If)):
                rest = s.orelse
                s.orelse = []
                blk[i + 1:i + 1] = rest
                changed = True
            i += 1
    return changed


def _simple(e):
    if isinstance(e, (ast.Name, ast.Constant)):
        return True
    if isinstance(e, ast.Attribute):
        return _simple(e.value)
    return False


def op_argvar(fn):
    """`f(a, g(x))` as a whole statement / assigned value -> `arg__1 = g(x); f(a, arg__1)` (callee and earlier arguments are plain names)"""
    changed = False
    k = 0
    for blk in _blocks(fn):
        i = 0
        while i < len(blk):
            s = blk[i]
            call = s.value if isinstance(s, (ast.Assign, ast.Expr, ast.Return)) and isinstance(getattr(s, "value", None), ast.Call) else None
            if call is not None and _simple(call.func) and not any(isinstance(a, ast.Starred) for a in call.args):
                for j, a in enumerate(call.args):
                    if isinstance(a, (ast.Call, ast.BinOp)) and all(_simple(b) for b in call.args[:j]):
                        k += 1
                        tmp = "arg__%d" % k
                        blk.insert(i, ast.Assign(targets=[ast.Name(id=tmp, ctx=ast.Store())], value=a))
                        call.args[j] = ast.Name(id=tmp, ctx=ast.Load())
                        i += 1
                        changed = True
                        break
                    if not _simple(a):
                        break
            i += 1
    return changed


OPS = {"rename": op_rename, "negif": op_negif, "retvar": op_retvar, "tmpvar": op_tmpvar, "elseify": op_elseify, "unelse": op_unelse,
       "argvar": op_argvar}


def find_func(tree, qual_tail):
    """qual_tail: ['Class', 'method'] / ['func'] / ['func', 'nested'] / property setters 'x.setter'"""
    def rec(body, parts):
        head = parts[0]
        setter = False
        if head.endswith(".setter"):
            head, setter = head[:-7], True
        for st in body:
            if isinstance(st, ast.ClassDef) and st.name == head and len(parts) > 1:
                r = rec(st.body, parts[1:])
                if r is not None:
                    return r
            if isinstance(st, (ast.FunctionDef, ast.AsyncFunctionDef)) and st.name == head:
                is_setter = any(isinstance(d, ast.Attribute) and d.attr == "setter" for d in st.decorator_list)
                if len(parts) == 1:
                    if is_setter == setter:
                        return st
                else:
                    r = rec(st.body, parts[1:])
                    if r is not None:
                        return r
        return None
    return rec(tree.body, qual_tail)


# ------------------------------------------------------------------------------------------------ driver
def targets_of(pid):
    """functions with non-trivial decided obligations for this property on the clean tree"""
    from qsa.cli import run_property
    code, rep = run_property(pid, REPO, "quick", write=False, quiet=True, selftest=False)
    out = {}
    for o in rep.obs:
        if o.status in ("HOLDS", "VIOLATION") and o.nontrivial and o.file:
            out.setdefault(o.func, o.file)
    return code, out


def run_one(job):
    pid, base_code, func, rel, op = job
    d = tempfile.mkdtemp(prefix="qsa_mm_")
    try:
        shutil.copytree(os.path.join(REPO, "quara"), os.path.join(d, "quara"), ignore=shutil.ignore_patterns("__pycache__"))
        p = os.path.join(d, rel)
        src = open(p, encoding="utf-8").read()
        tree = ast.parse(src)
        if op != "unparse":
            modname = rel[:-3].replace("/", ".")
            tail = func[len(modname) + 1:].split(".") if func.startswith(modname + ".") else None
            # property setters are named Class.prop.setter
            if tail and tail[-1] == "setter":
                tail = tail[:-2] + [tail[-2] + ".setter"]
            fn = find_func(tree, tail) if tail else None
            if fn is None:
                return (pid, func, op, "skip", "function not found")
            if not OPS[op](fn):
                return (pid, func, op, "skip", "nothing to transform")
        ast.fix_missing_locations(tree)
        new = ast.unparse(tree) + "\n"
        try:
            compile(new, rel, "exec")
        except SyntaxError as e:
            return (pid, func, op, "skip", "transformed source does not compile: %s" % e)
        open(p, "w", encoding="utf-8").write(new)
        q = subprocess.run([os.path.join(HERE, "check"), pid, "--no-write", "--repo", d], capture_output=True, text=True, cwd=HERE)
        if q.returncode != base_code:
            lines = [l.strip() for l in q.stdout.splitlines() if l.startswith(("  quara", "      why", "ANALYSIS-ERROR"))]
            return (pid, func, op, "FAIL", "exit %d (base %d): %s" % (q.returncode, base_code, " | ".join(lines[:4])[:500]))
        return (pid, func, op, "ok", "")
    finally:
        shutil.rmtree(d, ignore_errors=True)


def main():
    args = sys.argv[1:]
    ops, props, jobs, limit = list(OPS), None, 16, None
    while args:
        a = args.pop(0)
        if a == "--ops":
            ops = args.pop(0).split(",")
        elif a == "--props":
            props = args.pop(0).split(",")
        elif a == "--jobs":
            jobs = int(args.pop(0))
        elif a == "--limit":
            limit = int(args.pop(0))
    props = props or [c["property_id"] for c in json.load(open(os.path.join(HERE, "MANIFEST.json")))["checks"]]
    todo = []
    for pid in props:
        code, fs = targets_of(pid)
        items = sorted(fs.items())
        if limit:
            items = items[:limit]
        files = sorted({rel for _, rel in items})
        if "unparse" in ops:
            for rel in files:
                todo.append((pid, code, rel, rel, "unparse"))
        for func, rel in items:
            for op in ops:
                if op != "unparse":
                    todo.append((pid, code, func, rel, op))
        print("%s: %d functions in %d files" % (pid, len(items), len(files)), flush=True)
    n_ok = n_skip = 0
    fails = []
    with ThreadPoolExecutor(jobs) as ex:
        for r in ex.map(run_one, todo):
            if r[3] == "ok":
                n_ok += 1
            elif r[3] == "skip":
                n_skip += 1
            else:
                fails.append(r)
                print("FAIL %s %s [%s]: %s" % (r[0], r[1], r[2], r[4]), flush=True)
    print("metamorphic: %d transformed functions checked, %d unchanged verdicts, %d skipped, %d FAILED" % (len(todo), n_ok, n_skip, len(fails)))


if __name__ == "__main__":
    main()
