#!/usr/bin/env python3
"""Regenerates /verif/MANIFEST.json from the table below (kept here so it is always schema-valid)."""
import json, os, sys
HERE = os.path.dirname(os.path.dirname(os.path.abspath(__file__)))
sys.path.insert(0, HERE)
from qsa.claims import CLAIMS, NOT_APPLICABLE  # noqa

BASELINE = ("cd /repo && /venv/bin/python -m pytest -ra -q -p no:cacheprovider --timeout=900 "
            "--continue-on-collection-errors")

def main():
    checks = []
    for pid, c in sorted(CLAIMS.items()):
        checks.append({
            "property_id": pid,
            "quick_cmd": "./check %s --tier quick" % pid,
            "thorough_cmd": "./check %s --tier thorough" % pid,
            "evidence_file": "/verif/evidence/%s.json" % pid,
            "replay_cmd_template": "./check %s --replay {path}" % pid,
            "engine": "qsa",
            "level_claimed": {"category": "other", "text": c["text"], "design_ref": "DESIGN.md section 4, %s" % pid},
            "level_note": c["note"],
            "technique": c["technique"],
        })
    m = {
        "version": 1,
        "setup_cmd": "./check --help >/dev/null 2>&1; python3-vt -c 'import ast' || /venv/bin/python -c 'import ast'",
        "hooks": {
            "guard": "QUARA_VERIF",
            "enable": "none needed: the checks parse /repo/quara from the working tree; no instrumentation exists in the repository",
            "baseline_off_cmd": BASELINE,
            "source_commits": [],
            "add_only": True,
        },
        "engines": [{
            "name": "qsa",
            "path": "/verif/qsa",
            "serves_properties": sorted(CLAIMS),
            "kind_free_text": "repository-specific static analysis over python ast: program index + callee resolution, statement CFG "
                              "with dominators / must-pass / definite assignment, tolerance flow, alias/effect summaries, linear-form and "
                              "matrix-product normal forms, symbolic sizes, catalogue constant folding, table agreement",
        }],
        "checks": checks,
        "not_applicable": [{"property_id": k, "reason": v} for k, v in sorted(NOT_APPLICABLE.items())],
        "notes": "Static analysis only; nothing in /verif imports or runs quara. Exit 0 = held (KNOWN-FINDING lines allowed), "
                 "1 = VIOLATION line printed, 2 = ANALYSIS-ERROR (undecided / anchor vanished / floor missed). "
                 "See DESIGN.md; defects repaired in /repo are listed in known_findings.json under 'fixed'.",
    }
    with open(os.path.join(HERE, "MANIFEST.json"), "w") as fh:
        json.dump(m, fh, indent=1)
    try:
        import jsonschema
        jsonschema.validate(m, json.load(open("/root/.vp/MANIFEST.schema.json")))
        print("MANIFEST.json valid, %d checks, %d not applicable" % (len(checks), len(m["not_applicable"])))
    except ImportError:
        print("written (jsonschema not available to validate)")

main()
