import sys
def edit(path, pairs):
    with open(path, newline='') as fh: s = fh.read()
    crlf = '\r\n' in s
    for old, new in pairs:
        if crlf:
            old = old.replace('\n', '\r\n'); new = new.replace('\n', '\r\n')
        assert s.count(old) == 1, (path, old[:50], s.count(old))
        s = s.replace(old, new)
    with open(path, 'w', newline='') as fh: fh.write(s)
