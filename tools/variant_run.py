#!/usr/bin/env python3
"""dev tool: run selected hand-written variants of one property (by name substring).  usage: variant_run.py C11 A7 [A2 ...]"""
import os, sys
HERE = os.path.dirname(os.path.dirname(os.path.abspath(__file__)))
sys.path.insert(0, HERE)
from qsa.cli import run_property
from qsa import selftest as st
import importlib
pid = sys.argv[1]
pats = sys.argv[2:]
m = importlib.import_module("qsa.variants.%s" % pid.lower())
vs = [v for v in m.VARIANTS if not pats or any(p in v.name for p in pats)]
code, rep = run_property(pid, "/repo", "quick", write=False, quiet=True, selftest=False)
rep.match_known()
base_viol = {o.key() for o in rep.obs if o.status == "VIOLATION"}
for v in vs:
    print(st._run_one((pid, "/repo", v, base_viol, code)))
