#!/usr/bin/env python3
"""dev helper (never run by a check): add the current unlisted violations of <property> <rule> to known_findings.json
   usage: mk_known.py C03 I7 F9 "what fails" [function-substring]"""
import json, os, sys
HERE = os.path.dirname(os.path.dirname(os.path.abspath(__file__)))
sys.path.insert(0, HERE)
from qsa.cli import run_property
pid, rule, fid, what = sys.argv[1:5]
sub = sys.argv[5] if len(sys.argv) > 5 else ""
code, rep = run_property(pid, "/repo", "quick", write=False, quiet=True, selftest=False)
p = os.path.join(HERE, "known_findings.json")
d = json.load(open(p))
n = 0
for o in rep.obs:
    if o.status == "VIOLATION" and o.known is None and o.rule == rule and sub in o.func + " " + o.construct:
        n += 1
        d["findings"].append({"id": "%s.%d" % (fid, n), "property": pid, "rule": rule, "function": o.func,
                              "construct": o.construct, "what": what + " :: " + o.detail})
json.dump(d, open(p, "w"), indent=1)
print("added", n)
